"""x_disorder -- order/disorder bookkeeping of the CARDS pipeline (a part of C20,
grown beyond the listed properties, DESIGN 10).

Spec: specs/geometry/Disorder.tla (reuses specs/geometry/Transitions.tla by INSTANCE).

The module states, per function of enspara.cards.disorder, what it is DEFINED to compute
(traj_ord_disord_times, create_disorder_traj, aggregate_mean_times, transition_stats,
assign_order_disorder) and -- at definition level -- which arguments cards.cards_matrices
hands to mutual_info.mi_matrix; next to every definition stands the transcription of the
code as a step machine (one action per branch / loop iteration).  TLC checks, on every input
of the scope, machine = transcription = definition (up to the deviation classes named in the
module header) and the laws, and prints every input with the expected observables
(TIMES / DTRAJ / AGG / PIPE lines, PLUMB for the plumbing table).

This driver replays every printed case into the real functions in the input forms they accept
(int16 / int64 / float64 arrays, python and numpy scalars, list / tuple / 3-D array /
RaggedArray of trajectories) and compares values, dtypes, shapes and that the inputs are left
unchanged with what TLC printed.  It holds no oracle of its own: floats are compared with the
printed rationals (1e-9 relative), integers exactly; frames that TLC marked 2 ("the integer
intervals cannot tell on which side of the likelihood-ratio threshold this is") are not
compared.  The only numeric knowledge here is the float logarithm used to CHECK the table
and the sample intervals of the arithmetic bridge (a failure is a machinery failure).

KnownDeviation (below) lists the deviation classes of the pinned tree that are bound to the
TRANSCRIPTION (TLC's `i` values) instead of the definition, so that the part stays green
while the defects are reported; emptying it makes TLC print cmp = "e" for those cases and the
part reports them as violations (keys disorder/traj_ord_disord_times/ord_time,
disorder/transition_stats/mean_ordered_times, disorder/cards_matrices/raised, ...).

Scope (quick; thorough in brackets), TLC workers = 1 per run, at most 4 runs at once:
  times  all strictly increasing tt over 0..8 [0..10]
  dtraj  traj_len 1..6 [1..7], every tt over 0..len-2, ord/disord time in
         {1,3,9,20}/{1,2} squared [{1,2,3,5,9,20}/{1,2}]
  agg    (n_traj, n_feat) in {(1,1),(2,1),(3,1),(1,2),(2,2)}, times (0..2)/2 [(0..3)/2], weights 0..2
         (not all zero), two n_times tables
  pipe   all state arrays: 1 traj x 1 feature, 3 states, 1..6 frames; 2 x 1, 2 states,
         1..4 frames [1..6]; 1 x 2 and 2 x 2, 2 states, 1..2 frames [1..3]; and the "long" family:
         2 trajectories of 24 frames whose transitions are any subset of {0,17,18,19,21} [+22],
         1 trajectory x 2 features of 24 frames with transitions within {0,17,18,19}
         (the small arrays never reach a disordered segment: under the definition it takes
         a wait of >= 17 frames followed by rapid transitions)
"""
import importlib
import json
import math
import os

import numpy as np

from harness import core

SPEC_DIR = os.path.join(core.SPECS, "geometry")

# Deviation classes of the pinned tree that stay bound to the transcription (see module header
# of Disorder.tla for the decisions).  Remove a name to compare that class with the definition.
KnownDeviation = ("single-transition-ord-time-is-sum", "cards_matrices-generator-input")

INV = {
    "times": ["TypeOK", "TimesInputOK", "TimesMachineIsTranscription", "TimesImplIsDefExceptKnown",
              "TimesDeviationIsExactlyTheSum", "TimesNonNegative", "TimesNoTransitions", "TimesLaws"],
    "dtraj": ["TypeOK", "DTrajMachineIsTranscription", "DTrajIsDef", "DTrajShape", "DTrajFewTransitions",
              "DTrajOutsideIsOrdered", "DTrajSegmentsConstant", "DecisionLaws"],
    "agg": ["TypeOK", "AggMachineIsDef", "AggIsWeightedMean", "AggLaws", "AggIgnoresNTimes"],
    "pipe": ["TypeOK", "PipeInputOK", "PipeMachineIsTranscription", "PipeIsDefExceptKnown", "PipeShape",
             "PipeUsedTimesPositive", "PipeNoTransitions", "PipeNoLeak", "PipeSingleTrajectory"],
}
# actions that must fire in a run of the mode (vacuity control); D_SegEither may legitimately stay at 0
MUST_FIRE = {
    "times": ["T_None", "T_One", "T_Diff", "T_Disord", "T_Waits", "T_Ord", "T_Counts"],
    "dtraj": ["D_Few", "D_Enter", "D_SegDisordered", "D_SegOrdered", "D_Return"],
    "agg": ["A_Normalise", "A_Feature", "A_Return"],
    "pipe": ["P_Enter", "P_StatsCol", "P_AggOrdered", "P_AggDisordered", "P_AssignTraj", "P_AssignCol",
             "P_AppendTraj", "P_Return"],
}
TAG = {"times": "TIMES", "dtraj": "DTRAJ", "agg": "AGG", "pipe": "PIPE"}


def consts(mode, **kw):
    base = dict(Mode='"%s"' % mode,
                KnownDeviation="{" + ", ".join('"%s"' % k for k in KnownDeviation) + "}",
                Emit="TRUE", MaxT=8, MinL=1, MaxL=6, TimeNums="{1, 3, 9, 20}", TimeDens="{1, 2}",
                Shapes="{11}", MaxTime=2, TimeDen=2, MaxW=2, S=2, Family='"all"', LongLen=24,
                LongFrames="{0, 17, 18, 19, 21, 22}")
    base.update(kw)
    return {k: str(v) for k, v in base.items()}


def part_jobs(tier):
    th = tier == "thorough"
    J = [("times: tt over 0..%d" % (10 if th else 8), "times", consts("times", MaxT=10 if th else 8)),
         ("dtraj: len 1..%d x (ord, disord) grid" % (7 if th else 6), "dtraj",
          consts("dtraj", MaxL=7 if th else 6, TimeNums="{1, 2, 3, 5, 9, 20}" if th else "{1, 3, 9, 20}")),
         ("agg: 5 shapes, times (0..%d)/2, weights 0..2" % (3 if th else 2), "agg",
          consts("agg", Shapes="{11, 21, 31, 12, 22}", MaxTime=3 if th else 2)),
         ("pipe all: 1x1 S=3 len 1..6", "pipe", consts("pipe", Shapes="{11}", S=3, MaxL=6)),
         ("pipe all: 2x1 S=2 len 1..%d" % (6 if th else 4), "pipe", consts("pipe", Shapes="{21}", MaxL=6 if th else 4)),
         ("pipe all: 1x2, 2x2 S=2 len 1..%d" % (3 if th else 2), "pipe", consts("pipe", Shapes="{12, 22}", MaxL=3 if th else 2)),
         ("pipe long: 2x1, 24 frames, transitions within %s" % ("{0,17,18,19,21,22}" if th else "{0,17,18,19,21}"), "pipe",
          consts("pipe", Shapes="{21}", Family='"long"', LongFrames="{0, 17, 18, 19, 21, 22}" if th else "{0, 17, 18, 19, 21}"))]
    # two features with different mean times: a mix-up of the feature index is visible only here
    J.append(("pipe long: 1x2, 24 frames, transitions within {0,17,18,19}", "pipe",
              consts("pipe", Shapes="{12}", Family='"long"', LongFrames="{0, 17, 18, 19}")))
    if th:
        J.append(("pipe long: 1x2 + 3x1, 24 frames, transitions within {1,18,19,21}", "pipe",
                  consts("pipe", Shapes="{12, 31}", Family='"long"', LongFrames="{1, 18, 19, 21}")))
    return J


# --------------------------------------------------------------------------
# projections

def _close(x, r, tol=1e-9):
    """float x against the rational r = [num, den] printed by TLC"""
    try:
        x = float(x)
    except Exception:
        return False
    return math.isfinite(x) and core.close(x, r[0], r[1], tol)


def _is_real_scalar(v):
    return isinstance(v, (int, float, np.integer, np.floating)) and not isinstance(v, bool)


def _exc(ex):
    return "%s: %s" % (type(ex).__name__, ex)


# --------------------------------------------------------------------------
# replay: traj_ord_disord_times

def replay_times(c):
    from enspara.cards import disorder
    ref = c[c["cmp"]]
    bad = []
    for dt in (np.int64, np.int16, np.float64):
        a = np.array(c["tt"], dtype=dt)
        call = "traj_ord_disord_times(np.array(%r, dtype=%s))" % (c["tt"], dt.__name__)
        try:
            r = disorder.traj_ord_disord_times(a)
        except Exception as ex:
            bad.append(("disorder/traj_ord_disord_times/raised", {"call": call, "raised": _exc(ex)}))
            continue
        if not isinstance(r, tuple) or len(r) != 4 or not all(_is_real_scalar(v) for v in r):
            bad.append(("disorder/traj_ord_disord_times/return-shape", {"call": call, "got": repr(r)}))
            continue
        for name, k, v in (("ord_time", "ord", r[0]), ("disord_time", "dis", r[2])):
            if not _close(v, ref[k]):
                bad.append(("disorder/traj_ord_disord_times/" + name,
                            {"call": call, "got": float(v), "expected": "%d/%d" % tuple(ref[k]), "compared_with": c["cmp"]}))
        for name, k, v in (("n_ord", "n_ord", r[1]), ("n_disord", "n_dis", r[3])):
            if float(v) != ref[k]:
                bad.append(("disorder/traj_ord_disord_times/" + name,
                            {"call": call, "got": float(v), "expected": ref[k], "compared_with": c["cmp"]}))
        if a.tolist() != c["tt"] or a.dtype != dt:
            bad.append(("disorder/traj_ord_disord_times/input-modified", {"call": call}))
    return bad


# --------------------------------------------------------------------------
# replay: create_disorder_traj

def _mask_mismatch(got, exp):
    """positions where TLC committed to 0 or 1 and the real value differs"""
    return [k for k, (g, e) in enumerate(zip(got, exp)) if e != 2 and g != e]


def replay_dtraj(c):
    from enspara.cards import disorder
    O, D = c["O"], c["D"]
    bad = []
    forms = [("tt-int64,len-int,times-float", np.int64, int, float),
             ("tt-int16,len-np.int64,times-np.float64", np.int16, np.int64, np.float64)]
    for form, dt, lt, ft in forms:
        a = np.array(c["tt"], dtype=dt)
        o, d = ft(O[0] / O[1]), ft(D[0] / D[1])
        call = "create_disorder_traj(np.array(%r, dtype=%s), %d, %r, %r)" % (c["tt"], dt.__name__, c["len"], o, d)
        try:
            r = disorder.create_disorder_traj(a, lt(c["len"]), o, d)
        except Exception as ex:
            bad.append(("disorder/create_disorder_traj/raised", {"call": call, "form": form, "raised": _exc(ex)}))
            continue
        if not isinstance(r, np.ndarray) or r.shape != (c["len"],) or r.dtype.kind not in "fiu":
            bad.append(("disorder/create_disorder_traj/dtype-shape",
                        {"call": call, "type": str(type(r)), "shape": str(getattr(r, "shape", None)),
                         "dtype": str(getattr(r, "dtype", None))}))
            continue
        got = r.tolist()
        if any(g not in (0, 1) for g in got):
            bad.append(("disorder/create_disorder_traj/values-not-0-1", {"call": call, "got": got}))
        elif _mask_mismatch(got, c["e"]):
            bad.append(("disorder/create_disorder_traj/values",
                        {"call": call, "got": got, "expected": c["e"], "note": "2 = either"}))
        if a.tolist() != c["tt"]:
            bad.append(("disorder/create_disorder_traj/input-modified", {"call": call}))
    return bad


# --------------------------------------------------------------------------
# replay: aggregate_mean_times

def replay_agg(c):
    from enspara.cards import disorder
    den = c["den"]
    bad = []
    forms = [("times-float64,n-int64,weight-int64", lambda: np.array(c["times"], dtype=np.float64) / den, np.int64, np.int64),
             ("times-float64,n-float64,weight-float64", lambda: np.array(c["times"], dtype=np.float64) / den, np.float64, np.float64),
             ("times-float64,n-int16,weight-int16", lambda: np.array(c["times"], dtype=np.float64) / den, np.int16, np.int16)]
    if den == 1:
        forms.append(("times-int64,n-int64,weight-int64", lambda: np.array(c["times"], dtype=np.int64), np.int64, np.int64))
    for form, mk, ndt, wdt in forms:
        t = mk()
        n = np.array(c["nt"], dtype=ndt)
        w = np.array(c["w"], dtype=wdt)
        t0, n0, w0 = t.copy(), n.copy(), w.copy()
        call = "aggregate_mean_times(%r/%d, %r, %r) [%s]" % (c["times"], den, c["nt"], c["w"], form)
        try:
            r = disorder.aggregate_mean_times(t, n, w)
        except Exception as ex:
            bad.append(("disorder/aggregate_mean_times/raised", {"call": call, "raised": _exc(ex)}))
            continue
        nf = len(c["times"][0])
        if not isinstance(r, np.ndarray) or r.shape != (nf,) or r.dtype.kind != "f":
            bad.append(("disorder/aggregate_mean_times/dtype-shape",
                        {"call": call, "shape": str(getattr(r, "shape", None)), "dtype": str(getattr(r, "dtype", None))}))
            continue
        if not all(_close(r[f], c["e"][f]) for f in range(nf)):
            bad.append(("disorder/aggregate_mean_times/values",
                        {"call": call, "got": r.tolist(), "expected": ["%d/%d" % tuple(x) for x in c["e"]]}))
        if not (np.array_equal(t, t0) and np.array_equal(n, n0) and np.array_equal(w, w0)):
            bad.append(("disorder/aggregate_mean_times/input-modified", {"call": call}))
    return bad


# --------------------------------------------------------------------------
# replay: transition_stats, assign_order_disorder, cards_matrices

def _containers(x):
    """(name, maker) of the trajectory containers the functions accept"""
    from enspara import ra
    out = [("list-int16", lambda: [np.array(t, dtype=np.int16) for t in x]),
           ("tuple-int64", lambda: tuple(np.array(t, dtype=np.int64) for t in x)),
           ("ragged-int16", lambda: ra.RaggedArray([np.array(t, dtype=np.int16) for t in x]))]
    if len({len(t) for t in x}) == 1:
        out.append(("3d-array-int16", lambda: np.array(x, dtype=np.int16)))
    return out


def _snapshot(cont):
    return [np.array(cont[k]).copy() for k in range(len(cont))]


def _dt_mismatch(got, exp):
    """got: list of 2-D arrays, exp: nested lists with 0/1/2"""
    for a, (g, e) in enumerate(zip(got, exp)):
        g = np.asarray(g).tolist()
        for n, (gr, er) in enumerate(zip(g, e)):
            for f, (gv, ev) in enumerate(zip(gr, er)):
                if ev != 2 and gv != ev:
                    return {"trajectory": a, "frame": n, "feature": f, "got": gv, "expected": ev}
    return None


def replay_pipe(c):
    from enspara.cards import disorder
    x = c["x"]
    ref = c[c["cmp"]]
    nt, nf = len(x), len(x[0][0])
    lens = [len(t) for t in x]
    bad = []
    for form, mk in _containers(x):
        try:
            cont = mk()
        except Exception as ex:
            raise RuntimeError("cannot build input container %s for %r: %s" % (form, x, ex))
        before = _snapshot(cont)
        what = {"form": form, "x": x, "compared_with": c["cmp"]}
        # ---- transition_stats
        try:
            tts, mo, md = disorder.transition_stats(cont)
        except Exception as ex:
            bad.append(("disorder/transition_stats/raised", dict(what, raised=_exc(ex))))
            tts = None
        if tts is not None:
            try:
                ok_shape = len(tts) == nt and all(len(tts[a]) == nf for a in range(nt)) and \
                    all(isinstance(tts[a][f], np.ndarray) and tts[a][f].ndim == 1 and
                        (tts[a][f].dtype.kind in "iu") for a in range(nt) for f in range(nf)) and \
                    isinstance(mo, np.ndarray) and isinstance(md, np.ndarray) and mo.shape == (nf,) and \
                    md.shape == (nf,) and mo.dtype.kind == "f" and md.dtype.kind == "f"
            except Exception:
                ok_shape = False
            if not ok_shape:
                bad.append(("disorder/transition_stats/dtype-shape", dict(what, got=repr((tts, mo, md))[:400])))
            else:
                got = [[tts[a][f].tolist() for f in range(nf)] for a in range(nt)]
                if got != c["tt"]:
                    bad.append(("disorder/transition_stats/transition_times", dict(what, got=got, expected=c["tt"])))
                if not all(_close(mo[f], ref["mo"][f]) for f in range(nf)):
                    bad.append(("disorder/transition_stats/mean_ordered_times",
                                dict(what, got=mo.tolist(), expected=["%d/%d" % tuple(r) for r in ref["mo"]])))
                if not all(_close(md[f], ref["md"][f]) for f in range(nf)):
                    bad.append(("disorder/transition_stats/mean_disordered_times",
                                dict(what, got=md.tolist(), expected=["%d/%d" % tuple(r) for r in ref["md"]])))
        # ---- assign_order_disorder
        try:
            dts, ns = disorder.assign_order_disorder(cont)
        except Exception as ex:
            bad.append(("disorder/assign_order_disorder/raised", dict(what, raised=_exc(ex))))
            dts = None
        if dts is not None:
            try:
                ok_shape = isinstance(dts, list) and len(dts) == nt and \
                    all(isinstance(dts[a], np.ndarray) and dts[a].shape == (lens[a], nf) and
                        dts[a].dtype == np.int16 for a in range(nt)) and \
                    isinstance(ns, np.ndarray) and ns.shape == (nf,) and ns.dtype.kind in "iu"
            except Exception:
                ok_shape = False
            if not ok_shape:
                bad.append(("disorder/assign_order_disorder/dtype-shape",
                            dict(what, got=repr([(getattr(a, "shape", None), getattr(a, "dtype", None)) for a in dts])[:300],
                                 n_states=repr(ns))))
            else:
                if ns.tolist() != c["ns"]:
                    bad.append(("disorder/assign_order_disorder/n_states", dict(what, got=ns.tolist(), expected=c["ns"])))
                if any(((d != 0) & (d != 1)).any() for d in dts):
                    bad.append(("disorder/assign_order_disorder/values-not-0-1", dict(what, got=[d.tolist() for d in dts])))
                else:
                    mm = _dt_mismatch(dts, ref["dt"])
                    if mm:
                        bad.append(("disorder/assign_order_disorder/values",
                                    dict(what, first_mismatch=mm, got=[d.tolist() for d in dts], expected=ref["dt"])))
        after = _snapshot(cont)
        if len(after) != len(before) or not all(np.array_equal(p, q) and p.dtype == q.dtype for p, q in zip(before, after)):
            bad.append(("disorder/assign_order_disorder/input-modified", what))
    # ---- cards_matrices: which arguments reach mi_matrix (definition level, PLUMB record)
    bad += replay_plumbing(c)
    return bad


def replay_plumbing(c):
    cards_mod = importlib.import_module("enspara.cards.cards")
    mi = cards_mod.mutual_info
    pl = c["plumb"]
    x = c["x"]
    ref = c[c["cmp"]]
    nf = len(x[0][0])
    bad = []
    makers = {"list": lambda ts: list(ts), "tuple": lambda ts: tuple(ts), "generator": lambda ts: (t for t in ts)}
    for cname in sorted(pl["containers"]):
        trajs = [np.array(t, dtype=np.int16) for t in x]
        F = makers[cname](trajs)
        nF = np.array([3] * nf, dtype=np.int64)
        calls = []

        def recorder(Xs, Ys, n_x, n_y, *a, **k):
            calls.append((Xs, Ys, n_x, n_y))
            return len(calls)

        what = {"container": cname, "x": x}
        saved = mi.mi_matrix
        mi.mi_matrix = recorder
        try:
            r = cards_mod.cards_matrices(F, nF, 1)
        except Exception as ex:
            bad.append(("disorder/cards_matrices/raised", dict(what, raised=_exc(ex),
                                                               call="cards_matrices(%s of trajectories, n_states, 1)" % cname)))
            continue
        finally:
            mi.mi_matrix = saved
        if not isinstance(r, tuple) or list(r) != pl["returns"] or len(calls) != len(pl["calls"]):
            bad.append(("disorder/cards_matrices/returns", dict(what, got=repr(r), n_calls=len(calls))))
            continue

        def matches(sym, v):
            try:
                if sym == "F":
                    v = list(v)
                    return len(v) == len(trajs) and all(np.array_equal(p, q) for p, q in zip(v, trajs))
                if sym == "nF":
                    return np.array_equal(np.asarray(v), np.array([3] * nf))
                if sym == "nD":
                    return np.asarray(v).tolist() == c["ns"]
                if sym == "D":
                    v = list(v)
                    return len(v) == len(trajs) and all(np.asarray(p).shape == q.shape for p, q in zip(v, trajs)) and \
                        all(np.asarray(p).dtype.kind in "iu" for p in v) and _dt_mismatch(v, ref["dt"]) is None
            except Exception:
                return False
            return False
        for k, (syms, args) in enumerate(zip(pl["calls"], calls)):
            wrong = [p for p in range(4) if not matches(syms[p], args[p])]
            if wrong:
                bad.append(("disorder/cards_matrices/arguments",
                            dict(what, call_number=k + 1, expected=syms, wrong_positions=wrong)))
    return bad


REPLAY = {"TIMES": replay_times, "DTRAJ": replay_dtraj, "AGG": replay_agg, "PIPE": replay_pipe}


def replay_case(tc):
    tag, c = tc
    return REPLAY[tag](c)


# --------------------------------------------------------------------------

class _Reporter:
    """count every mismatch per key; hand at most CAP per key to ctx.violation (core keeps 3 files per key)"""
    CAP = 3

    def __init__(self, ctx):
        self.ctx = ctx
        self.counts = {}
        self.known = {k["key"] for k in ctx.known}

    def __call__(self, record, key):
        n = self.counts.get(key, 0)
        self.counts[key] = n + 1
        if key in self.known or n < self.CAP:
            self.ctx.violation(record, key=key)


def check_bridge(prints, label):
    """the logarithm table and the sample intervals printed by TLC against the float logarithm"""
    ln = [p for t, p in prints if t == "LN"]
    if not ln:
        raise core.MachineryError("no LN record from %s" % label)
    tab = ln[0]["table"]
    for k, v in enumerate(tab, start=1):
        if abs(v - 1e4 * math.log(k)) > 0.5 + 1e-6:
            raise core.MachineryError("Disorder.tla Ln4[%d] = %d is not round(1e4 ln %d)" % (k, v, k))
    for a, b, lo, hi in ln[0]["samples"]:
        t = 1e4 * math.log(a / b)
        if not (lo <= t <= hi) or hi - lo > 8:
            raise core.MachineryError("Disorder.tla: interval [%d, %d] for 1e4 ln(%d/%d) = %.3f is wrong or too wide"
                                      % (lo, hi, a, b, t))
    return len(tab), len(ln[0]["samples"])


def _nontrivial(tag, c):
    if tag == "TIMES":
        return len(c["tt"]) >= 1
    if tag == "DTRAJ":
        return 1 in c["e"]
    if tag == "AGG":
        return len(c["times"]) > 1
    return any(len(t) >= 2 for row in c["tt"] for t in row)


def run_part(ctx):
    ctx.assumptions += [
        "x_disorder: transition frames are strictly increasing non-negative integers inside the trajectory "
        "(what transitions() returns); sum of weights > 0; every trajectory has >= 1 frame and the same features",
        "x_disorder: the likelihood-ratio threshold is decided by TLC with integer intervals for 1e4*ln; frames "
        "within about 1e-3 (in ln LR) of the threshold are marked 'either' and not compared",
        "x_disorder: mutual_info.mi_matrix is replaced by a recorder when cards_matrices' argument plumbing is replayed",
    ]
    b = core.build_repo()
    core.activate(b)
    d = core.spec_tmp(SPEC_DIR)
    report = _Reporter(ctx)

    jobs, meta = [], []
    for n, (label, mode, cs) in enumerate(part_jobs(ctx.tier)):
        name = "xd%d.cfg" % n
        core.write_cfg(os.path.join(d, name), constants=cs, invariants=INV[mode] + ["EmitInv"])
        jobs.append(dict(module="Disorder", cfg=name, cwd=d, label="x_disorder " + label, workers=1,
                         coverage=("long" not in label),
                         timeout=600 if ctx.tier == "quick" else 2400, java_opts=("-Xmx2g",)))
        meta.append(mode)
    # model-level note: the aggregate is NOT the mean over the trajectories that observed the feature
    core.write_cfg(os.path.join(d, "xdneg.cfg"),
                   constants=consts("agg", Shapes="{21}", MaxTime=2, MaxW=1, Emit="FALSE"),
                   invariants=["AggIsMeanOverObservers"])
    jobs.append(dict(module="Disorder", cfg="xdneg.cfg", cwd=d, label="x_disorder model: AggIsMeanOverObservers (refuted)",
                     workers=1, timeout=300, java_opts=("-Xmx1g",), expect_ok=False))
    meta.append("model-neg")

    import time
    t0 = time.time()
    results = ctx.tlc_parallel(jobs, max_par=4)
    t_tlc = time.time() - t0

    stats = {"cases": {}, "either_frames": 0, "bound_to_transcription": {}, "mismatch_counts": report.counts}
    plumb = None
    for j, mode, r in zip(jobs, meta, results):
        if mode == "model-neg":
            stats["model: aggregate is the mean over the observing trajectories"] = \
                "refuted by TLC (%s)" % r.violated if r.violated else "holds"
            continue
        if not r.ok:
            continue          # a model-level violation was already reported by ctx.tlc_parallel
        for a in MUST_FIRE[mode]:
            if r.coverage and not r.coverage.get(a):
                raise core.MachineryError("vacuous run %s: action %s never fired" % (j["label"], a))
        stats["bridge"] = check_bridge(r.prints, j["label"])
        if plumb is None:
            pl = [p for t, p in r.prints if t == "PLUMB"]
            if not pl:
                raise core.MachineryError("no PLUMB record from %s" % j["label"])
            plumb = pl[0]
        cases = [(t, p) for t, p in r.prints if t == TAG[mode]]
        if not cases:
            raise core.MachineryError("no %s lines emitted by %s" % (TAG[mode], j["label"]))
        r.prints = None
        r.stdout = ""
        if mode == "pipe":
            for _, c in cases:
                c["plumb"] = plumb
        res = core.pmap(replay_case, cases, procs=4, chunk=250)
        for (tag, c), bad in zip(cases, res):
            nontriv = _nontrivial(tag, c)
            key = hash((tag, json.dumps({k: v for k, v in c.items() if k in ("tt", "len", "O", "D", "times", "nt", "w", "x")},
                                        sort_keys=True)))
            ctx.case(key if nontriv else None,
                     sample=({k: v for k, v in c.items() if k != "plumb"}
                             if (tag == "PIPE" and any(1 in fr for t in c["e"]["dt"] for fr in t) and len(ctx.samples) < 5)
                             else None))
            ctx.traces += 1
            stats["cases"][tag] = stats["cases"].get(tag, 0) + 1
            if c.get("dev") and c.get("cmp") == "i":
                stats["bound_to_transcription"][c["dev"]] = stats["bound_to_transcription"].get(c["dev"], 0) + 1
            if tag == "DTRAJ":
                stats["either_frames"] += c["e"].count(2)
            elif tag == "PIPE":
                stats["either_frames"] += sum(fr.count(2) for t in c["e"]["dt"] for fr in t)
            for k, detail in bad:
                report({"kind": "x_disorder", "tag": tag, "case": {kk: vv for kk, vv in c.items() if kk != "plumb"},
                        "detail": detail,
                        "how": "enspara.cards.disorder / cards.cards_matrices vs Disorder.tla (%s line)" % tag}, k)
    stats["wall_s"] = {"tlc": round(t_tlc, 1), "replay": round(time.time() - t0 - t_tlc, 1)}
    stats["known_deviation"] = list(KnownDeviation)
    stats["cards_matrices_containers"] = plumb["containers"] if plumb else None
    ctx.notes["x_disorder"] = stats
    return stats


def replay(ctx, rec):
    """re-run one recorded case (rec: the dict of a violation file of this part)"""
    b = core.build_repo()
    core.activate(b)
    bad = replay_case((rec["tag"], rec["case"])) if rec["tag"] != "PIPE" else \
        [x for x in replay_pipe(dict(rec["case"], plumb={"calls": [], "containers": [], "returns": []}))]
    ctx.case(("replay",), sample=rec.get("case"))
    ctx.traces += 1
    for k, detail in bad:
        ctx.violation({"kind": "x_disorder", "tag": rec["tag"], "case": rec["case"], "detail": detail}, key=k)
