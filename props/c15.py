"""C15 -- stored and bulk-loaded data come back bit-identical.

Specs: specs/storage/H5Rows.tla (ra.save / ra.load: node names, listing order,
stride, keys, single-key and old-style branches) and specs/storage/ParallelLoad.tla
(load_as_concatenated: sounding, lengths hint, offsets, workers writing windows of a
shared buffer in any order).

TLC (a) checks the invariants of both modules on their step machines (OrderPreserved
for every row count 1..1200; RoundTrip / StrideIsSlice / KeysSubset; WindowsDisjoint /
WindowsCover / FinalIsConcatenation / WrongHintRejected over all task orders), (b)
shows on a what-if variant re-creating the pinned tree's four repaired branches that the
corresponding invariants discriminate, and (c) emits cases: the input, the calls to make, and what each
call must return according to the DEFINITION part of the module.  This driver realises
every case as real files (PyTables files written by ra.save, trajectory files written
by mdtraj), calls the real functions and compares bit by bit.  The order in which the
parallel loader's tasks write is TLC's: enspara.util.load.mp is replaced by a shim whose
Pool runs the submitted tasks in-process in the emitted order; the thorough tier also
uses the real multiprocessing.Pool with 1/2/4/8 processes.

Python here only turns symbolic items (row r, position p; file f, frame t) into bytes,
runs the calls and compares with what TLC printed.
"""
import collections
import json
import multiprocessing
import multiprocessing.util  # noqa: F401  (load.py reaches mp.util through the package attribute)
import os
import pickle
import resource
import shutil
import tempfile
import time

import numpy as np

from harness import core

SPEC_DIR = os.path.join(core.SPECS, "storage")

DTYPES = ["int16", "int32", "int64", "float32", "float64"]     # element type tags 1..5 of H5Rows
ATOM_SELS = [[0, 2], [1], [3, 1]]                              # ParallelLoad!AtomSels
N_ATOMS = 4
NONE = 1000000                                                 # PySlice!None

H5_MC_INVS = ["TypeOK", "SaveInjective", "ListedIsRowOrder", "LengthsAreCeil", "FillInBounds", "StepMatchesOp",
              "RoundTrip", "StrideIsSlice", "KeysSubset", "RoundTripOneRow", "OldStyleStrideIsSlice"]
PL_INVS = ["TypeOK", "MdLoadIsDef", "SoundExact", "OffsetsArePrefixSums", "WindowsDisjoint", "WindowsCover",
           "FinalIsConcatenation", "WrongHintRejected", "ShapeMismatchRejected", "WrongHintNeverSilent",
           "WidthOneNeverSilent", "NoSilentGarbage"]

# ---------------------------------------------------------------------------- scopes
H5_BASE = dict(MaxRows=3, MaxLen=3, MaxStride=3, MaxKeys=3, NTags=2, OrderMin=1, OrderMax=1200, PairsMax=150,
               EmitRows="{1}", EmitRect="{1}", SmallN=3, Shifts=1, OldMax=11, EDims="{0, 2}", CLevels="{0, 1, 9}",
               PinnedTree="FALSE", Emit="FALSE")

H5_SCOPES = {
    "quick": dict(
        mc=[dict(MaxRows=3, MaxLen=3, NTags=2)],
        emit=[dict(EmitRows="{1, 2, 3}", EmitRect="{1, 2, 3, 5}", SmallN=3, MaxLen=4, NTags=5, Shifts=1),
              dict(EmitRows="{9, 10, 11}", EmitRect="{4}", SmallN=0, MaxLen=4, NTags=5, Shifts=2),
              dict(EmitRows="{99, 100, 101}", EmitRect="{7}", SmallN=0, MaxLen=4, NTags=5, Shifts=1),
              # a rectangular array with more rows than any block size a reader might use (2^16 + a bit), strides 2, 3
              dict(EmitRows="{1}", EmitRect="{70001}", SmallN=1, MaxLen=1, NTags=5, Shifts=1, OldMax=0)]),
    "thorough": dict(
        mc=[dict(MaxRows=3, MaxLen=4, NTags=2), dict(MaxRows=4, MaxLen=2, NTags=1)],
        emit=[dict(EmitRows="{1, 2, 3}", EmitRect="{1, 2, 3, 5}", SmallN=3, MaxLen=4, NTags=5, Shifts=1),
              dict(EmitRows="{9, 10, 11}", EmitRect="{4}", SmallN=0, MaxLen=4, NTags=5, Shifts=4),
              dict(EmitRows="{99, 100, 101}", EmitRect="{7}", SmallN=0, MaxLen=4, NTags=5, Shifts=2),
              dict(EmitRows="{999}", EmitRect="{6}", SmallN=0, MaxLen=4, NTags=5, Shifts=1, OldMax=0),
              dict(EmitRows="{1000}", EmitRect="{6}", SmallN=0, MaxLen=4, NTags=5, Shifts=1, OldMax=0),
              dict(EmitRows="{1001}", EmitRect="{6}", SmallN=0, MaxLen=4, NTags=5, Shifts=1, OldMax=0),
              dict(EmitRows="{1}", EmitRect="{70001, 131077}", SmallN=1, MaxLen=1, NTags=5, Shifts=1, OldMax=0)]),
}


def _pl(MinF, MaxF, LSet, StrideSet, WSet, KwMode, Frames, AtomMode, HintMode, Orders="all"):
    return dict(MinF=MinF, MaxF=MaxF, LSet=LSet, StrideSet=StrideSet, WSet=WSet, NAtoms=N_ATOMS,
                KwMode='"%s"' % KwMode, Frames="TRUE" if Frames else "FALSE", AtomMode='"%s"' % AtomMode,
                HintMode='"%s"' % HintMode, Orders='"%s"' % Orders)


PL_SCOPES = {
    "quick": dict(
        mc=[_pl(1, 3, "{1, 3, 4}", "{0, 2, 3}", "{1, 3}", "perfile", True, "none", "none"),
            _pl(1, 4, "{1, 3, 4}", "{0, 2, 3}", "{1, 3}", "shared", True, "none", "none"),
            _pl(1, 3, "{1, 2, 3}", "{0, 2}", "{2}", "shared", False, "none", "any"),
            _pl(1, 2, "{1, 3}", "{0, 2}", "{2}", "perfile", False, "perfile", "none")],
        emit=[_pl(1, 3, "{1, 3, 4}", "{0, 2, 3}", "{1}", "shared", True, "none", "none"),
              _pl(4, 4, "{1, 4}", "{0, 3}", "{1}", "shared", False, "none", "none"),
              _pl(1, 2, "{1, 3, 4}", "{0, 2, 3}", "{1}", "perfile", True, "none", "none", "few"),
              _pl(3, 3, "{4}", "{0, 2, 3}", "{1}", "perfile", True, "none", "none", "few"),
              _pl(1, 2, "{2, 3}", "{0, 2}", "{1}", "shared", False, "none", "any"),
              _pl(3, 3, "{2, 3}", "{0}", "{1}", "shared", False, "none", "any", "few"),
              _pl(1, 2, "{1, 3}", "{0, 2}", "{1}", "shared", True, "shared", "none"),
              _pl(2, 3, "{3}", "{0}", "{1}", "perfile", False, "perfile", "none", "few")]),
    "thorough": dict(
        mc=[_pl(1, 3, "{1, 2, 3, 4}", "{0, 1, 2, 3}", "{1, 2, 3}", "perfile", True, "none", "none"),
            _pl(1, 4, "{1, 2, 3, 4}", "{0, 1, 2, 3}", "{1, 2, 3}", "shared", True, "none", "none"),
            _pl(4, 4, "{2, 3}", "{0, 2}", "{1, 2, 3}", "perfile", True, "none", "none"),
            _pl(1, 3, "{1, 2, 3, 4}", "{0, 2, 3}", "{1, 2, 3}", "shared", False, "none", "any"),
            _pl(1, 3, "{1, 3}", "{0, 2}", "{1, 2, 3}", "perfile", True, "perfile", "none")],
        emit=[_pl(1, 3, "{1, 2, 3, 4}", "{0, 1, 2, 3}", "{1}", "shared", True, "none", "none"),
              _pl(4, 4, "{1, 3, 4}", "{0, 2, 3}", "{1}", "shared", False, "none", "none"),
              _pl(1, 2, "{1, 2, 3, 4}", "{0, 1, 2, 3}", "{1}", "perfile", True, "none", "none"),
              _pl(3, 3, "{3, 4}", "{0, 2, 3}", "{1}", "perfile", True, "none", "none", "few"),
              _pl(4, 4, "{4}", "{0, 3}", "{1}", "perfile", True, "none", "none", "few"),
              _pl(1, 2, "{1, 2, 3, 4}", "{0, 2, 3}", "{1}", "shared", False, "none", "any"),
              _pl(3, 3, "{2, 3}", "{0, 2}", "{1}", "shared", False, "none", "any"),
              _pl(1, 3, "{1, 3}", "{0, 2}", "{1}", "shared", True, "shared", "none"),
              _pl(2, 3, "{2, 3}", "{0, 2}", "{1}", "perfile", False, "perfile", "none", "few")]),
}

REAL_POOL = {"procs": (1, 2, 4, 8), "reps": 5, "configs": 14}

# ---------------------------------------------------------------------------- H5Rows replay
_SCRATCH = None          # set in run() before the replay workers are forked


def _name(codes):
    return "".join(chr(c) for c in codes)


def encode(ids, dtype, edim):
    """Symbolic items -> array of shape (len(ids),) + element shape.  Every (item, component)
    gets its own bit pattern; a few items are NaN / -inf / -0.0 in the float types."""
    ids = np.asarray(ids, dtype=np.int64).reshape(-1)
    dt = np.dtype(dtype)
    comps = []
    for c in range(max(edim, 1)):
        if dt.kind == "i":
            v = (ids - 8000) if c == 0 else (8191 - ids)
            v = v.astype(dt)
        else:
            v = ((ids - 8000) * 0.37 + c * 0.011).astype(dt)
            v[(ids % 53 == 7)] = np.nan
            v[(ids % 53 == 8)] = -np.inf
            v[ids == 8000] = -0.0
        comps.append(v)
    if edim == 0:
        return comps[0]
    return np.ascontiguousarray(np.stack(comps, axis=1))


def _project(res):
    """what load returned -> (kind, dtype, lengths, data)"""
    if hasattr(res, "_data") and hasattr(res, "lengths"):
        return "ra", res._data.dtype, [int(v) for v in res.lengths], np.asarray(res._data)
    if isinstance(res, np.ndarray):
        return "nd", res.dtype, [int(res.shape[0])] if res.ndim else [], res
    return type(res).__name__, None, [], None


def _h5_compare(got, exp_kind, exp_lengths, exp, dtype):
    kind, gdt, glens, data = got
    if kind != exp_kind:
        return "container", "returned %s, expected %s" % (kind, exp_kind)
    if gdt != np.dtype(dtype):
        return "dtype", "returned %s, expected %s" % (gdt, dtype)
    if glens != list(exp_lengths):
        return "lengths", "returned %s, expected %s" % (glens[:12], list(exp_lengths)[:12])
    if data.shape != exp.shape:
        return "shape", "returned %s, expected %s" % (data.shape, exp.shape)
    if np.ascontiguousarray(data).tobytes() != exp.tobytes():
        return "values", "returned %s, expected %s" % (np.asarray(data).reshape(-1)[:12].tolist(),
                                                       exp.reshape(-1)[:12].tolist())
    return None


def h5_replay(case):
    """One emitted input: for every storage parameter build the object, save it for real, compare
    the listing, make every emitted load call and compare with the definition's value."""
    from enspara import ra
    from enspara.ra import ra as ra_mod
    import tables
    import warnings
    out = dict(files=0, loads=0, bad=[], fid=0, fid_ex=[], classes=collections.Counter())
    d = tempfile.mkdtemp(prefix="h5_", dir=_SCRATCH)
    ctxt = dict(kind=case["kind"], style=case["style"], lens=case["lens"][:12], n_rows=len(case["lens"]))
    try:
        for edim, tagi, clevel in case["storages"]:
            dtype = DTYPES[tagi - 1]
            sto = dict(ctxt, element_shape=[] if edim == 0 else [edim], dtype=dtype, compression_level=clevel)
            rows = [encode(r, dtype, edim) for r in case["rows"]]
            obj = ra.RaggedArray([r.copy() for r in rows]) if case["kind"] == "ragged" else rows[0].copy()
            path = os.path.join(d, "f_%d_%d_%d.h5" % (edim, tagi, clevel))
            try:
                if case["style"] == "new":
                    ra.save(path, obj, compression_level=clevel)
                else:
                    ra_mod._save_old_style(path, obj)
            except Exception as ex:
                out["bad"].append(("ra.save/%s/raises-%s" % (case["kind"], type(ex).__name__),
                                   dict(sto, detail=str(ex)[:300])))
                continue
            out["files"] += 1
            with tables.open_file(path) as h:
                listed = [k.name for k in h.list_nodes("/")]
                cl = {k.name: k.filters.complevel for k in h.list_nodes("/")}
            want = [_name(c) for c in case["listed"]]
            if listed != want:
                out["bad"].append(("ra.save/%s-%s/listing" % (case["kind"], case["style"]),
                                   dict(sto, listed=listed[:15], expected=want[:15])))
            if case["style"] == "new" and set(cl.values()) != {clevel}:
                out["bad"].append(("ra.save/compression-level", dict(sto, found=sorted(set(cl.values())))))
            for ld in case["loads"]:
                kwargs = {}
                if ld["km"] == "none":
                    kwargs["keys"] = None
                elif ld["km"] == "list":
                    kwargs["keys"] = [_name(c) for c in ld["keys"]]
                if ld["stride"] != 1 or (ld["stride"] + len(ld["keys"]) + edim) % 2:
                    kwargs["stride"] = ld["stride"]
                try:
                    with warnings.catch_warnings():
                        warnings.simplefilter("ignore")
                        got = _project(ra.load(path, **kwargs))
                except Exception as ex:
                    got = ("err", None, [], type(ex).__name__ + ": " + str(ex)[:200])
                out["loads"] += 1
                out["classes"][ld["cls"]] += 1
                call = dict(sto, keys=kwargs.get("keys", "..."), stride=ld["stride"], cls=ld["cls"])
                # transcription vs real (a note about the model, never a verdict)
                tr_ok = (got[0] == ld["trKind"]) and (
                    got[0] == "err" or (got[2] == list(ld["trLengths"]) and got[3].shape[0] == len(ld["trItems"]) and
                                        np.ascontiguousarray(got[3]).tobytes() ==
                                        encode(ld["trItems"], dtype, edim).tobytes()))
                if got[0] == "err" and ld["trKind"] == "err":
                    tr_ok = got[3].startswith(ld["trErr"])
                if not tr_ok:
                    out["fid"] += 1
                    if len(out["fid_ex"]) < 2:
                        out["fid_ex"].append(dict(call, real=[got[0], got[2][:8]], transcription=[ld["trKind"], ld["trErr"]]))
                if ld["cls"].startswith("unspecified/"):
                    continue
                if got[0] == "err":
                    out["bad"].append(("ra.load/%s/raises-%s" % (ld["cls"], got[3].split(":")[0]),
                                       dict(call, detail=got[3])))
                    continue
                exp = encode(ld["expItems"], dtype, edim)
                diff = _h5_compare(got, ld["expKind"], ld["expLengths"], exp, dtype)
                if diff:
                    out["bad"].append(("ra.load/%s/%s" % (ld["cls"], diff[0]), dict(call, detail=diff[1])))
            os.unlink(path)
    finally:
        shutil.rmtree(d, ignore_errors=True)
    out["classes"] = dict(out["classes"])
    # keep the result small: at most 3 examples per key, with counts
    agg = collections.OrderedDict()
    for k, ex in out["bad"]:
        e = agg.setdefault(k, [0, []])
        e[0] += 1
        if len(e[1]) < 2:
            e[1].append(ex)
    out["bad"] = [(k, n, exs) for k, (n, exs) in agg.items()]
    return out


# ---------------------------------------------------------------------------- trajectory files
_TRJ = {}        # (fmt, slot, length) -> path
_REF = {}        # (fmt, slot, length) -> xyz of md.load(path) (all frames, all atoms)
_TOP = None
FORMATS = []


def make_trajectories(d, max_slot=4, max_len=4):
    """slot j of a case with L[j] frames is realised by the file (j, L[j]) of each format"""
    import mdtraj as md
    global _TOP
    top = md.Topology()
    ch = top.add_chain()
    res = top.add_residue("ALA", ch)
    for a in range(N_ATOMS):
        top.add_atom("C%d" % a, md.element.carbon, res)
    fmts = []
    for fmt in ("h5", "xtc"):
        try:
            for slot in range(1, max_slot + 1):
                for n in range(1, max_len + 1):
                    t, a, c = np.meshgrid(np.arange(n), np.arange(N_ATOMS), np.arange(3), indexing="ij")
                    xyz = (slot * 7 + n * 0.011 + t * 1.3 + a * 0.31 + c * 0.07).astype(np.float32)
                    xyz = np.round(xyz, 3)
                    trj = md.Trajectory(xyz, top)
                    p = os.path.join(d, "s%d_n%d.%s" % (slot, n, fmt))
                    trj.save(p)
                    if _TOP is None:
                        _TOP = os.path.join(d, "top.pdb")
                        trj[0].save(_TOP)
                    ref = md.load(p, top=_TOP) if fmt != "h5" else md.load(p)
                    if ref.xyz.shape != (n, N_ATOMS, 3) or ref.xyz.dtype != np.float32:
                        raise core.MachineryError("mdtraj reads back %s as %s" % (p, ref.xyz.shape))
                    _TRJ[(fmt, slot, n)] = p
                    _REF[(fmt, slot, n)] = ref.xyz.copy()
            fmts.append(fmt)
        except core.MachineryError:
            raise
        except Exception as ex:          # a format that cannot be written here is left out (noted)
            fmts.append(None)
            _TRJ["skip_" + fmt] = "%s: %s" % (type(ex).__name__, ex)
    FORMATS[:] = [f for f in fmts if f]
    if "h5" not in FORMATS:
        raise core.MachineryError("cannot write .h5 trajectories: %s" % _TRJ.get("skip_h5"))


# ---------------------------------------------------------------------------- the pool shim
class _ShimResult:
    def __init__(self, values, error):
        self._values, self._error = values, error

    def get(self, timeout=None):
        if self._error is not None:
            raise self._error
        return self._values

    def wait(self, timeout=None):
        pass

    def ready(self):
        return True

    def successful(self):
        return self._error is None


class _ShimPool:
    """multiprocessing.Pool executed in-process.  Arguments and results cross a pickle boundary as
    they do for real workers; the initializer runs before any task; every submitted task runs even
    if another one raised, and the first exception (in execution order) is re-raised by get()."""

    def __init__(self, owner, processes=None, initializer=None, initargs=(), maxtasksperchild=None, context=None):
        if processes is not None and processes < 1:
            raise ValueError("Number of processes must be at least 1")
        self._owner = owner
        self._state = "RUN"
        if initializer is not None:
            initializer(*initargs)

    def _run(self, func, items, order):
        if self._state != "RUN":
            raise ValueError("Pool not running")
        items = list(items)
        if order is None or sorted(order) != list(range(1, len(items) + 1)):
            order = list(range(len(items), 0, -1))          # unspecified: last submitted first
        values, error = [None] * len(items), None
        for t in order:
            try:
                arg = pickle.loads(pickle.dumps(items[t - 1]))
                values[t - 1] = pickle.loads(pickle.dumps(func(arg)))
            except Exception as ex:       # noqa: BLE001 -- a worker's exception travels to get()
                if error is None:
                    error = ex
            self._owner.executed.append(t)
        return _ShimResult(values, error)

    def map_async(self, func, iterable, chunksize=None, callback=None, error_callback=None):
        return self._run(func, iterable, self._owner.order)

    def map(self, func, iterable, chunksize=None):
        return self.map_async(func, iterable).get()

    def starmap(self, func, iterable, chunksize=None):
        return self._run(lambda a: func(*a), iterable, None).get()

    def close(self):
        if self._state == "RUN":
            self._state = "CLOSE"

    def terminate(self):
        self._state = "TERMINATE"

    def join(self):
        if self._state == "RUN":
            raise ValueError("Pool is still running")

    def __enter__(self):
        return self

    def __exit__(self, *a):
        self.terminate()


class ShimMP:
    """stands in for the name `mp` inside enspara.util.load: Pool is the in-process pool that
    follows `order`; everything else is the real multiprocessing"""

    def __init__(self, order):
        self.order = [int(t) for t in order] if order else None
        self.executed = []

    def Pool(self, processes=None, initializer=None, initargs=(), maxtasksperchild=None):
        return _ShimPool(self, processes, initializer, initargs, maxtasksperchild)

    def __getattr__(self, name):
        return getattr(multiprocessing, name)


# ---------------------------------------------------------------------------- ParallelLoad replay
def _kwargs_of(k, fmt):
    kw = {}
    if k["st"] != 0:
        kw["stride"] = k["st"]
    if k["fr"] != NONE:
        kw["frame"] = k["fr"]
    if k["at"] != 0:
        kw["atom_indices"] = np.array(ATOM_SELS[k["at"] - 1])
    if fmt != "h5":
        kw["top"] = _TOP
    return kw


def _kwclass(case):
    parts = []
    if any(k["st"] > 1 for k in case["kw"]):
        parts.append("stride")
    if any(k["fr"] != NONE for k in case["kw"]):
        parts.append("frame")
    if any(k["at"] != 0 for k in case["kw"]):
        parts.append("atoms")
    if case["hashint"]:
        parts.append("hint")
    return "+".join(parts) or "plain"


def _expected_xyz(case, fmt):
    cells = case["expCells"]
    frames = []
    for f, t, a, _b in cells:
        x = _REF[(fmt, f, case["L"][f - 1])][t]
        frames.append(x if a == 0 else x[ATOM_SELS[a - 1]])
    return np.ascontiguousarray(np.stack(frames)) if frames else np.zeros((0, N_ATOMS, 3), np.float32)


def _call_loader(case, fmt, form, mp_obj=None, processes=None):
    """returns ('ok', lengths, xyz) or ('err', type name, message)"""
    from enspara.util import load as load_mod
    files = [_TRJ[(fmt, f + 1, n)] for f, n in enumerate(case["L"])]
    kws = [_kwargs_of(k, fmt) for k in case["kw"]]
    hint = [int(v) for v in case["hint"]] if case["hashint"] else None
    real_mp = load_mod.mp
    if mp_obj is not None:
        load_mod.mp = mp_obj
    try:
        if form == "args":
            r = load_mod.load_as_concatenated(files, lengths=hint, processes=processes, args=kws)
        else:                                    # "kwargs", or "none" (only the topology, if the format needs one)
            r = load_mod.load_as_concatenated(files, lengths=hint, processes=processes, **kws[0])
        lengths, xyz = r
        return "ok", [int(v) for v in lengths], np.asarray(xyz)
    except Exception as ex:                      # noqa: BLE001 -- the implementation's verdict on the call
        return "err", type(ex).__name__, str(ex)[:300]
    finally:
        load_mod.mp = real_mp


def _judge(case, fmt, got):
    """compare one call's outcome with the definition's value; returns (what, detail) or None"""
    if case["cls"] != "ok":
        if got[0] == "ok":
            exp = None
            return "no-error", "returned lengths %s, %d frames instead of raising" % (got[1], len(got[2]))
        return None
    if got[0] == "err":
        return "raises-" + got[1], got[2]
    _ok, lengths, xyz = got
    exp = _expected_xyz(case, fmt)
    if lengths != list(case["expLengths"]):
        return "lengths", "returned %s, expected %s" % (lengths, case["expLengths"])
    if xyz.dtype != np.float32:
        return "dtype", str(xyz.dtype)
    if xyz.shape != exp.shape:
        return "shape", "returned %s, expected %s" % (xyz.shape, exp.shape)
    if np.ascontiguousarray(xyz).tobytes() != exp.tobytes():
        rows = [i for i in range(len(exp)) if xyz[i].tobytes() != exp[i].tobytes()]
        return "values", "frames %s of the result differ from the individually loaded ones" % rows[:10]
    return None


def pl_replay(case):
    out = dict(calls=0, bad=[], fid=0, fid_ex=[])
    for fmt in FORMATS:
        for form in case["forms"]:
            shim = ShimMP(case["order"])
            got = _call_loader(case, fmt, form, mp_obj=shim, processes=case["W"])
            out["calls"] += 1
            # transcription vs real (note only)
            tr_err = case["trErr"] != ""
            if tr_err != (got[0] == "err") or (tr_err and got[1] != case["trErr"]):
                out["fid"] += 1
                if len(out["fid_ex"]) < 2:
                    out["fid_ex"].append(dict(L=case["L"], kw=case["kw"], hint=case["hint"], fmt=fmt, form=form,
                                              real=got[:2] if got[0] == "err" else "ok", transcription=case["trErr"]))
            diff = _judge(case, fmt, got)
            if diff:
                out["bad"].append(("load_as_concatenated/%s/%s/%s" % (case["cls"], _kwclass(case), diff[0]),
                                   dict(fmt=fmt, form=form, pool="shim", detail=diff[1])))
    return out


def _case_brief(case):
    return {k: case[k] for k in ("L", "kw", "hashint", "hint", "W", "order", "cls", "expLengths", "expCells")}


# ---------------------------------------------------------------------------- run
def _h5_consts(sc, **over):
    c = dict(H5_BASE)
    c.update(sc)
    c.update(over)
    return {k: str(v) for k, v in c.items()}


def _pl_consts(sc, emit, track, pinned=False):
    c = dict(sc)
    c["WidthCheck"] = c["PerFileCheck"] = "FALSE" if pinned else "TRUE"
    c["TrackOrder"] = "TRUE" if track else "FALSE"
    c["Emit"] = "TRUE" if emit else "FALSE"
    return {k: str(v) for k, v in c.items()}


def run(ctx):
    global _SCRATCH
    ctx.rule = ("H5Rows: TLC emits every ragged input (all row-length combinations for <=3 rows, cyclic length "
                "patterns for the larger row counts) and rectangular input x old/new style, with all calls "
                "(stride 1..3 x {all keys, keys=None, every ordered selection of <=3 keys among rows 0,1,10,last}); "
                "each is realised for element shapes () and (2,), 5 dtypes, compression 0/1/9 (all 30 for the "
                "reference length pattern, one rotating choice otherwise). ParallelLoad: TLC emits every call "
                "(files x lengths x per-file/shared stride, frame=, atom_indices x lengths hint) with every order "
                "of the tasks' writes (first-to-last and last-to-first only where marked 'few'); each is replayed "
                "on .h5 and .xtc files in each admissible call form. A case is non-trivial when it has >= 2 "
                "rows/files or a stride/selection; distinct by the emitted record")
    ctx.assumptions += ["rows and trajectories are non-empty; at least one file per call",
                        "PyTables lists the children of a group in code-point order (checked on every file written)",
                        "md.load(f, stride=s, frame=k, atom_indices=a) is taken as the meaning of 'individually "
                        "loaded': every s-th frame from 0 / frame k / the listed atoms of md.load(f)",
                        "the in-process pool serialises the writes; truly concurrent writes are exercised only by "
                        "the real pool of the thorough tier",
                        "workers take tasks in any order (a superset of the pool's first-in-first-out hand-out)"]
    b = core.build_repo()
    core.activate(b)
    d = core.spec_tmp(SPEC_DIR)
    _SCRATCH = core.scratch("ev_c15_")
    gc = ("-XX:ParallelGCThreads=2", "-Xmx2g", "-Xss64m")
    h5s, pls = H5_SCOPES[ctx.tier], PL_SCOPES[ctx.tier]
    jobs = []       # (role, job)

    def add(role, module, name, consts, invs, label, init=None, next_=None, **kw):
        core.write_cfg(os.path.join(d, name), init=init, next_=next_, constants=consts, invariants=invs)
        jobs.append((role, dict(module=module, cfg=name, cwd=d, label=label, java_opts=gc, **kw)))

    # H5Rows: OrderPreserved for every row count 1..1200, in shards
    for k, (lo, hi) in enumerate([(1, 500), (501, 800), (801, 1020), (1021, 1200)]):
        add("order", "H5Rows", "order%d.cfg" % k, _h5_consts({}, OrderMin=lo, OrderMax=hi), ["OrderPreserved"],
            "H5Rows OrderPreserved rows %d..%d" % (lo, hi), init="InitOrder", next_="NoNext", workers=1, timeout=900)
    for k, sc in enumerate(h5s["mc"]):
        add("h5mc", "H5Rows", "h5mc%d.cfg" % k, _h5_consts(sc), H5_MC_INVS, "H5Rows step machine %s" % sc,
            init="InitMC", workers=1, coverage=True, timeout=1500)
    sc0 = h5s["mc"][0]
    for inv in ("RoundTripOneRow", "OldStyleStrideIsSlice"):
        add(("refute", inv), "H5Rows", "h5ref_%s.cfg" % inv, _h5_consts(sc0, PinnedTree="TRUE"), [inv],
            "H5Rows what-if: the pinned tree's load branches must break %s" % inv, init="InitMC", workers=1, timeout=600, expect_ok=False)
    for k, sc in enumerate(h5s["emit"]):
        add("h5emit", "H5Rows", "h5emit%d.cfg" % k, _h5_consts(sc, Emit="TRUE"), ["EmitInv"], "H5Rows emit %s" % sc,
            init="InitEmit", next_="NoNext", workers=1, timeout=1500)
    # ParallelLoad
    for k, sc in enumerate(pls["mc"]):
        add("plmc", "ParallelLoad", "plmc%d.cfg" % k, _pl_consts(sc, False, False), PL_INVS,
            "ParallelLoad all schedules %s" % sc, workers=2 if ctx.tier == "quick" else 4, coverage=(k != 1),
            timeout=2400)
    add(("refute", "WrongHintNeverSilent"), "ParallelLoad", "plref_hint.cfg",
        _pl_consts(_pl(1, 2, "{2, 3}", "{0}", "{1}", "shared", False, "none", "any"), False, False, pinned=True),
        ["WrongHintNeverSilent"], "ParallelLoad what-if: the pinned tree's total-only check must break WrongHintNeverSilent", workers=1, timeout=600,
        expect_ok=False)
    add(("refute", "WidthOneNeverSilent"), "ParallelLoad", "plref_width.cfg",
        _pl_consts(_pl(1, 2, "{1, 3}", "{0}", "{1}", "perfile", False, "perfile", "none"), False, False, pinned=True),
        ["WidthOneNeverSilent"], "ParallelLoad what-if: the pinned tree's unchecked width must break WidthOneNeverSilent", workers=1, timeout=600,
        expect_ok=False)
    for k, sc in enumerate(pls["emit"]):
        add("plemit", "ParallelLoad", "plemit%d.cfg" % k, _pl_consts(sc, True, True), ["EmitInv"],
            "ParallelLoad emit %s" % sc, workers=1, timeout=1500)

    t0 = time.time()
    results = ctx.tlc_parallel([j for _, j in jobs], max_par=10 if ctx.tier == "quick" else 12)
    ctx.notes["wall_tlc_s"] = round(time.time() - t0, 1)
    by_role = collections.defaultdict(list)
    for (role, _j), r in zip(jobs, results):
        by_role[role if isinstance(role, str) else role[0]].append((role, r))

    # ---- vacuity / refutations
    n_order = sum(r.distinct for _, r in by_role["order"])
    if n_order != 1200:
        raise core.MachineryError("OrderPreserved covered %d row counts, expected 1200" % n_order)
    cov = collections.Counter()
    for _, r in by_role["h5mc"]:
        cov.update(r.coverage)
    for act in ("SBegin", "SRow", "SEnd", "ChooseLoad", "LOpen", "LKeys", "LShapes", "LFill", "LFillEnd", "LWrap"):
        if cov.get(act, 0) == 0:
            raise core.MachineryError("H5Rows: action %s never fired (%s)" % (act, dict(cov)))
    ctx.notes["h5rows_action_counts"] = dict(cov)
    cov = collections.Counter()
    for _, r in by_role["plmc"]:
        cov.update(r.coverage)
    for act in ("Start", "Insert", "InsertEnd", "Alloc", "Takes", "Writes", "Gather"):
        if cov.get(act, 0) == 0:
            raise core.MachineryError("ParallelLoad: action %s never fired (%s)" % (act, dict(cov)))
    ctx.notes["parallelload_action_counts"] = dict(cov)
    refuted = {}
    for role, r in by_role["refute"]:
        refuted[role[1]] = r.violated
        if r.violated != role[1]:
            raise core.MachineryError("the what-if model of the pinned tree was expected to break %s; TLC says violated=%s ok=%s"
                                      % (role[1], r.violated, r.ok))
    ctx.notes["invariants_shown_to_discriminate_on_the_pinned_tree_what_if"] = sorted(refuted)

    found = collections.OrderedDict()        # key -> [count, examples]

    def report(key, n, example):
        e = found.setdefault(key, [0, []])
        e[0] += n
        if len(e[1]) < 3:
            e[1].append(example)

    # ---- H5Rows replay
    t0 = time.time()
    h5cases = []
    for _, r in by_role["h5emit"]:
        cs = [p for t, p in r.prints if t == "CASE"]
        if not cs:
            raise core.MachineryError("an H5Rows emitting run printed no CASE line")
        h5cases += cs
        r.prints, r.stdout = None, None
    # big inputs first so that the pool's tail is short
    h5cases.sort(key=lambda c: -len(c["lens"]) * len(c["storages"]))
    st = dict(files=0, loads=0, fid=0, fid_ex=[], classes=collections.Counter())
    for c, res in zip(h5cases, core.pmap(h5_replay, h5cases, chunk=1)):
        st["files"] += res["files"]
        st["loads"] += res["loads"]
        st["fid"] += res["fid"]
        st["classes"].update(res["classes"])
        if len(st["fid_ex"]) < 4:
            st["fid_ex"] += res["fid_ex"]
        nontriv = len(c["lens"]) > 1 or c["kind"] == "rect"
        ctx.case(("h5", c["kind"], c["style"], tuple(c["lens"])) if nontriv else None,
                 sample=dict(kind=c["kind"], style=c["style"], lens=c["lens"][:10], load=c["loads"][-1])
                 if nontriv and len(c["lens"]) < 4 else None)
        ctx.traces += res["loads"]
        ctx.evaluations += res["loads"]
        for key, n, exs in res["bad"]:
            report(key, n, dict(kind="replay", how="ra.save + ra.load on a real file vs H5Rows!Def",
                                input=dict(kind=c["kind"], style=c["style"], lens=c["lens"][:40],
                                           n_rows=len(c["lens"])), example=exs[0], more=exs[1:],
                                h5case=c if len(c["lens"]) <= 12 else None))
    ctx.notes["h5_files_written"] = st["files"]
    ctx.notes["h5_loads_compared"] = st["loads"]
    ctx.notes["h5_loads_per_class"] = dict(st["classes"])
    ctx.notes["h5_transcription_vs_real_disagreements"] = {"n": st["fid"], "examples": st["fid_ex"]}
    ctx.notes["wall_h5_replay_s"] = round(time.time() - t0, 1)

    # ---- ParallelLoad replay
    t0 = time.time()
    make_trajectories(_SCRATCH)
    ctx.notes["trajectory_formats"] = list(FORMATS) + ["(skipped) %s: %s" % (k, v) for k, v in _TRJ.items()
                                                       if isinstance(k, str)]
    plcases = []
    for _, r in by_role["plemit"]:
        cs = [p for t, p in r.prints if t == "CASE"]
        if not cs:
            raise core.MachineryError("a ParallelLoad emitting run printed no CASE line")
        plcases += cs
        r.prints, r.stdout = None, None
    seen, uniq = set(), []
    for c in plcases:
        k = json.dumps(_case_brief(c), sort_keys=True)
        if k not in seen:
            seen.add(k)
            uniq.append(c)
    plcases = uniq
    pst = dict(calls=0, fid=0, fid_ex=[], classes=collections.Counter())
    for c, res in zip(plcases, core.pmap(pl_replay, plcases, chunk=25)):
        pst["calls"] += res["calls"]
        pst["fid"] += res["fid"]
        if len(pst["fid_ex"]) < 4:
            pst["fid_ex"] += res["fid_ex"]
        pst["classes"][c["cls"]] += 1
        nontriv = len(c["L"]) > 1 or any(k["st"] > 1 or k["at"] for k in c["kw"])
        ctx.case(("pl", json.dumps(_case_brief(c), sort_keys=True)) if nontriv else None,
                 sample=_case_brief(c) if len(c["L"]) == 3 and c["cls"] == "ok" and c["order"] != [1, 2, 3] else None)
        ctx.traces += res["calls"]
        for key, ex in res["bad"]:
            report(key, 1, dict(kind="replay", how="load_as_concatenated on real files vs ParallelLoad!DefCells",
                                plcase=_case_brief(c), example=ex))
    ctx.notes["loader_cases"] = len(plcases)
    ctx.notes["loader_calls_compared"] = pst["calls"]
    ctx.notes["loader_cases_per_class"] = dict(pst["classes"])
    ctx.notes["loader_transcription_vs_real_disagreements"] = {"n": pst["fid"], "examples": pst["fid_ex"]}
    if st["fid"] or pst["fid"]:
        # the step-level transcription no longer describes the code (kind of result or exception differs); the
        # verdict on the property is the comparison with the DEFINITION above, so this is reported, not judged
        print("NOTE C15 model-drift: the transcription in H5Rows/ParallelLoad differs from the real code on %d load "
              "call(s) and %d loader call(s); see evidence notes" % (st["fid"], pst["fid"]))
    ctx.notes["wall_loader_replay_s"] = round(time.time() - t0, 1)

    sounding_history(ctx, report)
    # ---- the real pool
    if ctx.tier == "thorough":
        t0 = time.time()
        real_pool(ctx, plcases, report)
        ctx.notes["wall_real_pool_s"] = round(time.time() - t0, 1)

    for key, (n, exs) in found.items():
        rec = dict(exs[0])
        rec["n_cases"] = n
        rec["more_examples"] = exs[1:]
        ctx.violation(rec, key=key)
    ctx.notes["finding_keys"] = {k: v[0] for k, v in found.items()}
    ctx.notes["cpu_s"] = {"driver_process": round(sum(resource.getrusage(resource.RUSAGE_SELF)[:2]), 1),
                          "tlc_and_replay_children": round(sum(resource.getrusage(resource.RUSAGE_CHILDREN)[:2]), 1)}


def real_pool(ctx, plcases, report):
    """the same calls through the real multiprocessing.Pool (schedules chosen by the OS)"""
    picked, seen = [], set()
    # the largest calls of each class of keywords, hints included; error classes too
    for c in sorted(plcases, key=lambda c: (-len(c["L"]), -sum(c["L"]))):
        k = (_kwclass(c), c["cls"], len(c["L"]))
        if k in seen or c["cls"] == "hint-wrong/count":
            continue
        seen.add(k)
        picked.append(c)
        if len(picked) >= REAL_POOL["configs"]:
            break
    n = 0
    for c in picked:
        for procs in REAL_POOL["procs"]:
            for rep in range(REAL_POOL["reps"]):
                fmt = FORMATS[(rep + procs) % len(FORMATS)]
                form = c["forms"][rep % len(c["forms"])]
                got = _call_loader(c, fmt, form, mp_obj=None, processes=procs)
                n += 1
                ctx.traces += 1
                diff = _judge(c, fmt, got)
                if diff:
                    report("load_as_concatenated/%s/%s/%s" % (c["cls"], _kwclass(c), diff[0]), 1,
                           dict(kind="replay", how="load_as_concatenated with the real multiprocessing.Pool",
                                plcase=_case_brief(c),
                                example=dict(fmt=fmt, form=form, pool="multiprocessing.Pool(%d)" % procs,
                                             repetition=rep, detail=diff[1])))
    ctx.notes["real_pool_calls"] = n
    ctx.notes["real_pool_configs"] = [dict(L=c["L"], kwclass=_kwclass(c), cls=c["cls"]) for c in picked]


def sounding_history(ctx, report):
    """ParallelLoad!Sound is a function of the file AS IT IS NOW: a trajectory that grows (or is rewritten shorter) under
    the same name between two calls -- a simulation continued between rounds of an adaptive-sampling driver -- is
    sounded and bulk-loaded with its current length; both calls are made from this process"""
    import mdtraj as md
    from enspara.util import load as L
    d = tempfile.mkdtemp(prefix="ev_c15hist_")
    n = 0
    try:
        top = md.Topology()
        ch = top.add_chain()
        res = top.add_residue("ALA", ch)
        for a in range(N_ATOMS):
            top.add_atom("C%d" % a, md.element.carbon, res)
        topf = os.path.join(d, "top.pdb")
        # (nc: AMBER NetCDF, whose native length unit is not mdtraj's -- md.load converts, a raw reader would not)
        for fmt in [f for f in ("xtc", "h5") if f in FORMATS] + ["nc"]:
            for n1, n2 in ((12, 17), (12, 5)):
                f = os.path.join(d, "run_%d_%d.%s" % (n1, n2, fmt))
                other = os.path.join(d, "other.%s" % fmt)
                try:
                    md.Trajectory(np.random.RandomState(3).rand(4, N_ATOMS, 3).astype(np.float32), top).save(other)
                    md.Trajectory(np.zeros((1, N_ATOMS, 3), dtype=np.float32), top).save(topf)
                except Exception:
                    continue
                for rnd, nf in enumerate((n1, n2)):
                    xyz = (np.arange(nf * N_ATOMS * 3).reshape(nf, N_ATOMS, 3) * 0.01 + rnd).astype(np.float32)
                    md.Trajectory(xyz, top).save(f)
                    kw = {} if fmt == "h5" else {"top": topf}
                    ref = md.load(f, **kw).xyz
                    refo = md.load(other, **kw).xyz
                    n += 1
                    ctx.case(("sounding-history", fmt, n1, n2, rnd))
                    ctx.traces += 1
                    for stride in (1, 2, 5):
                        try:
                            got = L.sound_trajectory(f, stride=stride)
                        except Exception as ex:
                            got = "raised %s" % type(ex).__name__
                        if got != -(-nf // stride):
                            report("sound_trajectory/%s/history/length" % ("first-sounding" if rnd == 0 else "after-rewrite"), 1,
                                   {"kind": "replay", "call": "sound_trajectory(%s file, stride=%d)" % (fmt, stride),
                                    "history": "file written with %d frames, sounded and loaded, rewritten with %d frames" % (n1, n2),
                                    "round": rnd + 1, "got": got, "expected": -(-nf // stride)})
                    try:
                        lens, xyz_got = L.load_as_concatenated([f, other], processes=2, **kw)
                        ok = [int(x) for x in lens] == [nf, 4] and np.array_equal(np.asarray(xyz_got), np.concatenate([ref, refo]))
                        detail = {"lengths": [int(x) for x in lens]}
                    except Exception as ex:
                        ok, detail = False, {"raised": "%s: %s" % (type(ex).__name__, str(ex)[:160])}
                    if not ok:
                        report("load_as_concatenated/%s/history/%s" % ("first-load" if rnd == 0 else "after-rewrite",
                                                                      "raises" if "raised" in detail else "values"), 1,
                               dict({"kind": "replay", "call": "load_as_concatenated([%s file, other], processes=2)" % fmt,
                                     "history": "file written with %d frames, sounded and loaded, rewritten with %d frames" % (n1, n2),
                                     "round": rnd + 1, "expected_lengths": [nf, 4]}, **detail))
    finally:
        shutil.rmtree(d, ignore_errors=True)
    ctx.notes["sounding_history_rounds"] = n


def replay(ctx, path):
    global _SCRATCH
    rec = json.load(open(path))
    b = core.build_repo()
    core.activate(b)
    _SCRATCH = core.scratch("ev_c15_")
    ctx.case(("replay",), sample=rec.get("example"))
    ctx.nontrivial.add(("replay2",))
    if rec.get("h5case"):
        res = h5_replay(rec["h5case"])
        for key, n, exs in res["bad"]:
            if key == rec.get("key"):
                ctx.violation(dict(kind="replay", example=exs[0], n_cases=n, h5case=rec["h5case"]), key=key)
    elif rec.get("plcase"):
        make_trajectories(_SCRATCH)
        c = dict(rec["plcase"])
        c.setdefault("trErr", "")
        c["forms"] = [rec["example"]["form"]]
        if rec["example"].get("pool") == "shim":
            res = pl_replay(c)
            for key, ex in res["bad"]:
                ctx.violation(dict(kind="replay", plcase=rec["plcase"], example=ex), key=key)
        else:
            real_pool(ctx, [c], lambda key, n, ex: ctx.violation(ex, key=key))
    else:
        raise core.MachineryError("this record carries no replayable case (input too large); re-run the check")
