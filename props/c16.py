"""C16 -- MSM estimator = function pipeline, round-trips, sound spectrum.

Part 1 (spec -> code): specs/msm/MSMObj.tla models the object's lifecycle
New -> Fit -> Save -> Load with the stored configuration as a variable of its
own; TLC checks ConfigStored / FitIsPipeline / RoundTrip / ... and emits, for
every (assignments, configuration) in scope, the set of admissible pipeline
results (exact rationals).  The driver replays each into the real MSM object,
compares with the emitted expectation AND with the real function pipeline,
and saves/loads a deterministic subset.

Part 2 (code -> spec): outputs of eigenspectrum / eq_probs / implied_timescales
/ synthetic_ensemble on TLC-enumerated chains are recorded as scaled integers
and validated by TLC against specs/msm/Spectrum.tla.
"""
import json
import math
import os
import shutil
import tempfile
import warnings

import numpy as np

from harness import core
from props import c12

SPEC_DIR = os.path.join(core.SPECS, "msm")
INVS = ["ConfigStored", "FitIsPipeline", "RoundTrip", "MappingMonotone", "NStatesConsistent", "TrimmedConnected"]

SCOPES = {"quick": [dict(S=2, MaxT=2, MaxLen=3, MaxLag=2), dict(S=3, MaxT=1, MaxLen=4, MaxLag=2)],
          "thorough": [dict(S=2, MaxT=2, MaxLen=4, MaxLag=3), dict(S=3, MaxT=1, MaxLen=5, MaxLag=2),
                       dict(S=3, MaxT=2, MaxLen=3, MaxLag=2)]}


def _dense(x):
    import scipy.sparse as sp
    return np.asarray(x.toarray()) if sp.issparse(x) else np.asarray(x)


def _rat(mat):
    return np.array([[(t[0] / t[1] if t[1] else 0.0) for t in row] for row in mat], dtype=float)


def _fit(method, cfg, trajs):
    from enspara import ra
    from enspara.msm import MSM
    m = MSM(lag_time=cfg["lag"], method=method, trim=cfg["trim"], sliding_window=cfg["sliding"],
            max_n_states=None if cfg["maxn"] == 0 else cfg["maxn"])
    stored = dict(lag=m.lag_time, trim=m.trim, sliding=m.sliding_window,
                  maxn=0 if m.max_n_states is None else m.max_n_states)
    a = ra.RaggedArray([np.array(t) for t in trajs])
    err = None
    try:
        with warnings.catch_warnings():
            warnings.simplefilter("ignore")
            m.fit(a)
    except Exception as ex:
        err = type(ex).__name__ + ": " + str(ex)[:120]
    return m, stored, err


def _pipeline(method_fn, cfg, trajs):
    from enspara import ra
    from enspara.msm.transition_matrices import assigns_to_counts, trim_disconnected
    a = ra.RaggedArray([np.array(t) for t in trajs])
    try:
        with warnings.catch_warnings():
            warnings.simplefilter("ignore")
            C = assigns_to_counts(a, cfg["lag"], max_n_states=None if cfg["maxn"] == 0 else cfg["maxn"],
                                  sliding_window=cfg["sliding"])
            if cfg["trim"]:
                mp, C = trim_disconnected(C)
                to_orig = dict(mp.to_original)
            else:
                to_orig = {i: i for i in range(C.shape[0])}
            Cc, T, eq = method_fn(C)
        return (Cc, T, eq, to_orig), None
    except Exception as ex:
        return None, type(ex).__name__ + ": " + str(ex)[:120]


def replay_case(arg):
    c, do_io = arg
    from enspara.msm import builders, MSM
    cfg, trajs = c["cfg"], c["trajs"]
    bad = []
    for mname, as_callable in ((cfg["method"], False), (cfg["method"], True), ("mle", False)):
        if mname == "mle" and not cfg["trim"]:
            continue
        fn = getattr(builders, mname)
        m, stored, err = _fit(fn if as_callable else mname, cfg, trajs)
        given = dict(lag=cfg["lag"], trim=cfg["trim"], sliding=cfg["sliding"], maxn=cfg["maxn"])
        if stored != given or m.method is not fn:
            bad.append(("MSM.__init__/config-not-stored/" + ",".join(k for k in given if stored[k] != given[k]),
                        {"given": given, "stored": stored}))
        pipe, perr = _pipeline(fn, cfg, trajs)
        if err or perr:
            if bool(err) != bool(perr) or (err or "").split(":")[0] != (perr or "").split(":")[0]:
                bad.append(("MSM.fit/differs-from-function-pipeline/exception", {"fit": err, "pipeline": perr,
                                                                                "method": mname}))
            continue
        got = dict(counts=_dense(m.tcounts_), tprobs=_dense(m.tprobs_), eq=np.asarray(m.eq_probs_, dtype=float),
                   to_orig=dict(m.mapping_.to_original))
        # (i) against the real function pipeline, bitwise
        pc, pt, pe, pm = pipe
        if not (np.array_equal(got["counts"], _dense(pc)) and np.array_equal(got["tprobs"], _dense(pt), equal_nan=True)
                and np.array_equal(got["eq"], np.asarray(pe, dtype=float), equal_nan=True) and got["to_orig"] == pm):
            bad.append(("MSM.fit/differs-from-function-pipeline/%s" % mname,
                        {"fit": {k: (v.tolist() if hasattr(v, "tolist") else v) for k, v in got.items()},
                         "pipeline": {"counts": _dense(pc).tolist(), "tprobs": _dense(pt).tolist(),
                                      "eq": np.asarray(pe, dtype=float).tolist(), "to_orig": pm}}))
        # (ii) against the specification's pipeline (exact rationals)
        if mname != "mle":
            keep = [got["to_orig"].get(i) for i in range(len(got["to_orig"]))]
            match = [a for a in c["allowed"] if [k - 1 for k in a["keep"]] == keep]
            if not match:
                bad.append(("MSM.fit/mapping-not-admissible", {"to_original": got["to_orig"],
                                                               "allowed": [a["keep"] for a in c["allowed"]]}))
            else:
                a = match[0]
                W = np.array(a["counts"], dtype=float) * (0.5 if a["half"] else 1.0)
                if got["counts"].shape != W.shape or not np.allclose(got["counts"], W, rtol=1e-12, atol=0):
                    bad.append(("MSM.fit/tcounts", {"got": got["counts"].tolist(), "expected": W.tolist()}))
                T = _rat(a["tprobs"])
                if got["tprobs"].shape != T.shape or not np.allclose(got["tprobs"], T, rtol=1e-12, atol=1e-15):
                    bad.append(("MSM.fit/tprobs", {"got": got["tprobs"].tolist(), "expected": T.tolist()}))
                if a["pops"] and a["pops"][0][1] > 0:
                    p = np.array([x[0] / x[1] for x in a["pops"]])
                    if got["eq"].shape != p.shape or not np.allclose(got["eq"], p, rtol=1e-9, atol=1e-12):
                        bad.append(("MSM.fit/eq_probs", {"got": got["eq"].tolist(), "expected": p.tolist()}))
                try:
                    if m.n_states_ != len(a["keep"]):
                        bad.append(("MSM.n_states_", {"got": m.n_states_, "expected": len(a["keep"])}))
                except Exception as ex:
                    bad.append(("MSM.n_states_", {"raised": str(ex)}))
        # (iii) save / load
        if do_io and not as_callable:
            d = tempfile.mkdtemp(prefix="ev_msm_")
            try:
                path = os.path.join(d, "model")
                m.save(path)
                m2 = MSM.load(path)
                same = dict(counts=np.array_equal(_dense(m2.tcounts_), got["counts"]),
                            tprobs=np.array_equal(_dense(m2.tprobs_), got["tprobs"], equal_nan=True),
                            eq=np.array_equal(np.asarray(m2.eq_probs_, dtype=float).reshape(-1), got["eq"].reshape(-1),
                                              equal_nan=True),
                            mapping=dict(m2.mapping_.to_original) == got["to_orig"]
                            and dict(m2.mapping_.to_mapped) == dict(m.mapping_.to_mapped),
                            config=(m2.lag_time, m2.trim, m2.sliding_window, m2.method, m2.max_n_states) ==
                                   (m.lag_time, m.trim, m.sliding_window, m.method, m.max_n_states))
                nan = np.isnan(got["eq"]).any() or np.isnan(got["tprobs"]).any()
                if not nan:
                    same["eq_operator"] = bool(m2 == m)
                if not all(same.values()):
                    bad.append(("MSM.save-load/" + ",".join(k for k, v in same.items() if not v),
                                {"method": mname, "same": same}))
            except Exception as ex:
                bad.append(("MSM.save-load/raises", {"error": type(ex).__name__ + ": " + str(ex)[:200]}))
            finally:
                shutil.rmtree(d, ignore_errors=True)
    return bad


# ---------------------------------------------------------------------------
# spectral part

def _lcm(xs):
    l = 1
    for x in xs:
        l = l * x // math.gcd(l, x)
    return l


def _sc(a, s):
    return np.rint(np.asarray(a, dtype=float) * s).astype(np.int64).tolist()


def spectrum_record(arg):
    kind, C, extra = arg
    import scipy.sparse as sp
    from enspara.msm.transition_matrices import eigenspectrum, eq_probs
    from enspara.msm.timescales import implied_timescales
    from enspara.msm.synthetic_data import synthetic_ensemble
    C = np.array(C, dtype=np.int64)
    n = len(C)
    r = C.sum(axis=1)
    D = _lcm([int(x) for x in r])
    A = (C * (D // r)[:, None]).astype(np.int64)
    T = A / D
    Tm = sp.csr_matrix(T) if extra.get("sparse") else T
    rec = {"n": n, "A": A.tolist(), "D": int(D), "reversible": bool(np.array_equal(C, C.T)), "r": r.tolist(),
           "lam": extra.get("lam", []), "p0": extra.get("p0", [1] + [0] * (n - 1)), "P": extra.get("P", 1),
           "events": [], "sparse": bool(extra.get("sparse")), "large": False}
    ev = rec["events"]

    def guard(f):
        try:
            with warnings.catch_warnings():
                warnings.simplefilter("ignore")
                f()
        except Exception as ex:
            ev.append({"ev": "raise", "msg": type(ex).__name__ + ": " + str(ex)[:160]})

    def eig():
        vals, vecs = eigenspectrum(Tm)
        ev.append({"ev": "eig", "vals6": _sc(vals, 1e6), "vals4": _sc(vals, 1e4), "vecs4": _sc(vecs, 1e4),
                   "v6": _sc(vecs[:, 0], 1e6)})

    def eq():
        ev.append({"ev": "eq", "p6": _sc(eq_probs(Tm), 1e6)})

    def ts():
        lag = extra["lag"]
        assigns = np.arange(n).reshape(1, -1)
        out = implied_timescales(assigns, [lag], method=lambda Cc: (Cc, Tm, None), n_times=n - 1)
        ev.append({"ev": "ts", "lag": lag, "ts2": _sc(out[0], 1e2)})

    def prop():
        p0 = np.array(rec["p0"], dtype=float) / rec["P"]
        final, rows = synthetic_ensemble(Tm, p0, extra.get("steps", 4))
        ev.append({"ev": "prop", "rows6": _sc(rows, 1e6), "final6": _sc(final, 1e6)})
    guard(eig)
    guard(eq)
    if rec["lam"]:
        guard(ts)
    if D ** (extra.get("steps", 4) - 1) * rec["P"] <= 2000:
        guard(prop)
    return rec


# ---- large structured chains: both sides of eigenspectrum's `T.shape[0] < 1000 and issparse(T)` switch ---------
SPECTRUM_SIZES = {"quick": [999, 1000, 1001], "thorough": [999, 1000, 1001, 1500]}
# ARPACK does not converge on the directed-ring family with >= 1000 states (see props/c04.py RING_ARPACK): the
# sparse ring traces at these sizes stay off; non-reversible chains reach ARPACK through the "prod" family
RING_ARPACK = False
_LARGE = []


def spectrum_record_large(arg):
    k, sparse = arg
    import scipy.sparse as sp
    from props import c04
    from enspara.msm.transition_matrices import eigenspectrum, eq_probs
    c = _LARGE[k]
    n = c["n"]
    T = c04._expect(c)[2]
    Tm = sp.csr_matrix(T) if sparse else T
    # T by columns, exact: entries of the emitted sparse rows <<num, den>>
    cols = [[] for _ in range(n)]
    i, j, v = c04._rows(c["T"])
    for a, b, t in zip(i.tolist(), j.tolist(), v):
        if t[0] > 0:
            cols[b].append([a + 1, t[0], t[1]])
    scale = 10 ** 8
    rec = {"large": True, "n": n, "cols": cols, "scale": scale, "events": [], "sparse": bool(sparse),
           "fam": c["fam"], "pat": c["pat"], "builder": c["builder"]}
    ev = rec["events"]

    def ints(x, sc):          # projection with saturation: the trace holds 32-bit integers only
        x = np.asarray(x, dtype=float)
        if not np.isfinite(x).all():
            raise FloatingPointError("non-finite output")
        return np.clip(np.rint(x * sc), -2 * 10 ** 9, 2 * 10 ** 9).astype(np.int64).tolist()

    def guard(f):
        try:
            with warnings.catch_warnings():
                warnings.simplefilter("ignore")
                f()
        except Exception as ex:
            ev.append({"ev": "raise", "msg": type(ex).__name__ + ": " + str(ex)[:160]})

    def eig():
        vals, vecs = eigenspectrum(Tm, n_eigs=3)
        ev.append({"ev": "eigL", "vals6": ints(vals, 1e6), "p": ints(vecs[:, 0], scale)})

    def eq():
        ev.append({"ev": "eqL", "p": ints(eq_probs(Tm), scale)})
    guard(eig)
    if sparse and n >= 1000:      # eq_probs is eigenspectrum(n_eigs=3): a second LAPACK run is not worth 2 s
        guard(eq)
    return rec


def large_spectrum_traces(ctx):
    """transition matrices of the BuildersLarge.tla families (exact rationals emitted by TLC; the closed forms
    themselves are C04's business) through eigenspectrum / eq_probs, dense and sparse"""
    global _LARGE
    from props import c04
    d = core.spec_tmp(SPEC_DIR)
    sizes = SPECTRUM_SIZES[ctx.tier]
    jobs = [c04.large_job(d, "sp%d" % n, [n], [1 + (q + ctx.seed) % c04.NPATS], '{"dense"}', "emit", priors=(0,),
                          workers=1) for q, n in enumerate(sizes)]
    cases = [p for r in ctx.tlc_parallel(jobs) for t, p in r.prints if t == "CASE"]
    if len({c["n"] for c in cases}) != len(sizes):
        raise core.MachineryError("large spectrum: cases for sizes %s only" % sorted({c["n"] for c in cases}))
    _LARGE = cases
    args = []
    for k, c in enumerate(cases):
        n, fam = c["n"], c["fam"]
        slow = fam in c04.SLOW_MIXING
        # sparse: always below the threshold (densified inside); above it unless ARPACK is known not to converge
        if n < 1000 or fam != "ring" or c["builder"] == "transpose" or RING_ARPACK:
            if n < 1000 and (k + ctx.seed) % 3:
                pass                                  # LAPACK on n = 999: every third case is enough
            elif not (slow and c["builder"] == "transpose" and n >= 1000 and (k + ctx.seed) % 2):
                args.append((k, True))
        # dense (LAPACK at every size): a few
        if (k + ctx.seed) % 5 == 0 and n <= 1001:
            args.append((k, False))
    args.sort(key=lambda a: (a[1], -cases[a[0]]["n"]))          # the LAPACK runs first
    return core.pmap(spectrum_record_large, args, chunk=1)


def spectrum_part(ctx):
    mats = c12.enumerate_inputs(ctx, [dict(N=3, MaxC=2)] if ctx.tier == "quick" else [dict(N=3, MaxC=2), dict(N=4, MaxC=1)])
    rng = np.random.RandomState(ctx.seed + 16)
    args = []
    sym = [C for C in mats if np.array_equal(np.array(C), np.array(C).T)]
    other = [C for C in mats if not np.array_equal(np.array(C), np.array(C).T)]
    step = 6 if ctx.tier == "quick" else 1
    for k, C in enumerate(sym):
        n = len(C)
        p0 = [int(x) for x in rng.randint(0, 3, size=n)]
        if sum(p0) == 0:
            p0[0] = 1
        args.append(("rev", C, {"p0": p0, "P": sum(p0), "sparse": k % 3 == 0}))
    for k, C in enumerate(other[ctx.seed % step::step]):
        args.append(("nonrev", C, {"sparse": k % 4 == 0}))
    # 2-state family and symmetric circulants with rational second eigenvalue
    for Dd in (4, 6, 10, 12, 24):
        for p in range(1, Dd):
            for q in range(1, Dd - p):
                if Dd - p - q >= 1 and (ctx.tier == "thorough" or (p + q) % 3 == 0):
                    C = [[Dd - p, p], [q, Dd - q]]
                    args.append(("two", C, {"lam": [[Dd - p - q, Dd]], "lag": 1 + (p + q) % 3}))
        for p in range(1, (Dd - 1) // 3 + 1):
            if Dd - 3 * p >= 1:
                C = [[Dd - 2 * p, p, p], [p, Dd - 2 * p, p], [p, p, Dd - 2 * p]]
                args.append(("circ", C, {"lam": [[Dd - 3 * p, Dd], [Dd - 3 * p, Dd]], "lag": 2}))
    args = [a for a in args if _lcm([int(sum(r)) for r in a[1]]) <= 20]     # 32-bit budget of Spectrum.tla
    recs = core.pmap(spectrum_record, args, chunk=50)
    recs += large_spectrum_traces(ctx)
    d = core.spec_tmp(SPEC_DIR)
    tf = os.path.join(d, "traces.json")
    json.dump(recs, open(tf, "w"))
    core.write_cfg(os.path.join(d, "sp.cfg"), invariants=["Report"])
    r = ctx.tlc("Spectrum", "sp.cfg", d, label="spectrum trace validation (%d traces)" % len(recs), workers=1,
                env={"TRACE_FILE": tf})
    verdict = {p[0]: p[1] for t, p in r.prints if t == "VERDICT"}
    for k, rec in enumerate(recs):
        ctx.traces += 1
        ctx.case(("spectrum", str(rec["A"]), rec["sparse"]) if not rec["large"] else
                 ("spectrum-large", rec["n"], rec["fam"], rec["pat"], rec["builder"], rec["sparse"]), sample=None)
        v = verdict.get(k + 1)
        if v is None:
            raise core.MachineryError("no verdict for spectrum trace %d" % (k + 1))
        for clause, l in v:
            evn = rec["events"][l - 1] if l else {}
            if rec["large"]:
                # the matrix is regenerated from the specification, not stored: n = 1000 traces are megabytes
                small = {k: v for k, v in rec.items() if k not in ("cols", "events")}
                evn = {k: (v if not isinstance(v, list) or len(v) <= 12 else v[:12] + ["..."]) for k, v in evn.items()}
                ctx.violation({"kind": "trace-rejected", "clause": clause, "event": evn, "trace": small,
                               "regenerate": "BuildersLarge.tla Sizes={%d} Families={\"%s\"} PatIds={%d} builder %s"
                                             % (rec["n"], rec["fam"], rec["pat"], rec["builder"]),
                               "how": "Spectrum.tla clause fails on recorded output"},
                              key="spectrum-large/%s/%s/%s" % (clause, "sparse" if rec["sparse"] else "dense",
                                                               "n>=1000" if rec["n"] >= 1000 else "n<1000"))
                continue
            ctx.violation({"kind": "trace-rejected", "clause": clause, "event": evn, "trace": rec,
                           "how": "Spectrum.tla clause fails on recorded output"},
                          key="spectrum/%s%s" % (clause, "/sparse" if rec["sparse"] else ""))
    ctx.notes["spectrum_traces"] = len(recs)
    ctx.notes["spectrum_large_traces"] = sum(1 for r in recs if r["large"])


# ---------------------------------------------------------------------------
# magnitudes: rarely visited states (populations of 1e-5 .. 1e-7) in fit and in the save / load round trip

RARE_SETS = ["<< <<<<0, 1>>, 600000>>, <<<<0, 0, 1>>, 400000>>, <<<<2, 0, 1, 1>>, 12>> >>",
             "<< <<<<0, 1>>, 1048577>>, <<<<0, 2, 2, 1, 0>>, 7>>, <<<<1>>, 70001>> >>",
             "<< <<<<0, 0, 1>>, 90000>>, <<<<0, 2, 2, 1, 0>>, 5>> >>"]


def rare_case(c):
    """one data set of CountsPeriodic.tla (closed-form counts, emitted by TLC): MSM(lag, method, trim=False).fit, then
    the counts / probabilities / populations against the emitted counts (transpose: sym/2, sym/rowsum, rowsum/total in
    exact fractions; normalize: C, C/rowsum), then save -> load bit for bit"""
    from fractions import Fraction
    from enspara import ra
    from enspara.msm import MSM, builders
    rows = [np.tile(np.array(p, dtype=np.int64), L // len(p) + 1)[:L] for p, L in c["trajs"]]
    C = [[int(x) for x in r] for r in c["C"]]
    n = len(C)
    bad = []
    for mname in ("transpose", "normalize"):
        m = MSM(lag_time=c["lag"], method=getattr(builders, mname), trim=False, sliding_window=bool(c["sliding"]),
                max_n_states=c["S"])
        try:
            with warnings.catch_warnings():
                warnings.simplefilter("ignore")
                m.fit(ra.RaggedArray(rows))
        except Exception as ex:
            bad.append(("MSM.fit/rare-states/raises", {"method": mname, "error": type(ex).__name__ + ": " + str(ex)[:200]}))
            continue
        W = [[Fraction(C[i][j] + C[j][i], 2) if mname == "transpose" else Fraction(C[i][j]) for j in range(n)] for i in range(n)]
        rs = [sum(r) for r in W]
        if min(rs) == 0:
            continue
        T = np.array([[float(W[i][j] / rs[i]) for j in range(n)] for i in range(n)])
        got = dict(counts=_dense(m.tcounts_), tprobs=_dense(m.tprobs_), eq=np.asarray(m.eq_probs_, dtype=float))
        if not np.array_equal(got["counts"], np.array([[float(x) for x in r] for r in W])):
            bad.append(("MSM.fit/rare-states/tcounts", {"method": mname, "got": got["counts"].tolist()}))
        if got["tprobs"].shape != T.shape or not np.allclose(got["tprobs"], T, rtol=1e-13, atol=0):
            bad.append(("MSM.fit/rare-states/tprobs", {"method": mname, "got": got["tprobs"].tolist(), "expected": T.tolist()}))
        if mname == "transpose":
            pe = np.array([float(r / sum(rs)) for r in rs])
            if got["eq"].shape != pe.shape or not np.allclose(got["eq"], pe, rtol=1e-13, atol=0):
                bad.append(("MSM.fit/rare-states/eq_probs", {"got": got["eq"].tolist(), "expected": pe.tolist()}))
        d = tempfile.mkdtemp(prefix="ev_msm_")
        try:
            path = os.path.join(d, "model")
            m.save(path)
            m2 = MSM.load(path)
            same = dict(counts=np.array_equal(_dense(m2.tcounts_), got["counts"]),
                        tprobs=np.array_equal(_dense(m2.tprobs_), got["tprobs"]),
                        eq=np.array_equal(np.asarray(m2.eq_probs_, dtype=float).reshape(-1), got["eq"].reshape(-1)),
                        mapping=dict(m2.mapping_.to_original) == dict(m.mapping_.to_original),
                        eq_operator=bool(m2 == m))
            if not all(same.values()):
                bad.append(("MSM.save-load/rare-states/" + ",".join(k for k, v in same.items() if not v),
                            {"method": mname, "same": same, "eq_probs_in_memory": got["eq"].tolist(),
                             "eq_probs_loaded": np.asarray(m2.eq_probs_, dtype=float).tolist()}))
        except Exception as ex:
            bad.append(("MSM.save-load/rare-states/raises", {"error": type(ex).__name__ + ": " + str(ex)[:200]}))
        finally:
            shutil.rmtree(d, ignore_errors=True)
    return bad


def rare_part(ctx, d):
    from props import c03
    with open(os.path.join(d, "MC_CountsPeriodic.tla"), "w") as fh:
        fh.write("---- MODULE MC_CountsPeriodic ----\nEXTENDS CountsPeriodic\nPatsDef == %s\nBigDef == {%s}\n"
                 "SmallDef == 0..2\nLagsDef == {1, 3}\n====\n" % (c03.PATS, ", ".join(RARE_SETS)))
    pc = dict(Pats="<- PatsDef", S="3", SmallLens="<- SmallDef", BigSets="<- BigDef", Lags="<- LagsDef")
    cfg = core.write_cfg(os.path.join(d, "rare.cfg"), init="InitBig", constants=dict(pc, Emit="TRUE"),
                         invariants=["EmitInv", "TotalLaw"])
    r = ctx.tlc("MC_CountsPeriodic", os.path.basename(cfg), d, label="CountsPeriodic: data sets with rarely visited states",
                workers=1)
    cases = [p for t, p in r.prints if t == "CASE"]
    if not cases:
        raise core.MachineryError("no CASE lines from CountsPeriodic (rare states)")
    out = core.pmap(rare_case, cases, chunk=1)
    smallest = 1.0
    for c, bad in zip(cases, out):
        tot = sum(sum(r_) for r_ in c["C"])
        rsum = [sum(r_) + sum(c["C"][j][i] for j in range(len(c["C"]))) for i, r_ in enumerate(c["C"])]
        if tot and min(rsum) > 0:
            smallest = min(smallest, min(rsum) / (2.0 * tot))
        ctx.case(("rare", str(c["trajs"]), c["lag"], c["sliding"]))
        ctx.traces += 1
        for key, detail in bad:
            ctx.violation({"kind": "replay", "case": {k: v for k, v in c.items() if k != "C"}, "counts": c["C"], "detail": detail,
                           "how": "MSM(method, trim=False).fit / save / load on the periodic data set of CountsPeriodic.tla"},
                          key=key)
    ctx.notes["rare_state_cases"] = len(cases)
    ctx.notes["rare_state_smallest_population"] = smallest


def run(ctx):
    ctx.rule = ("part 1: TLC enumerates every assignment set (<=MaxT trajectories of length 1..MaxLen over S states) x "
                "lag x builder x trim x sliding x max_n_states; non-trivial = at least one lagged pair; part 2: every "
                "strongly connected 3-state chain from TLC-enumerated count matrices (entries 0..2) plus the rational-"
                "eigenvalue families, plus the BuildersLarge.tla families at n = 999, 1000, 1001 (dense and sparse: "
                "LAPACK and ARPACK paths of eigenspectrum)")
    ctx.assumptions += ["eq_probs_ for method=normalize is compared with the real function pipeline bitwise and validated "
                        "relationally in part 2 (no closed form in MSMObj.tla)",
                        "method=mle only compared with the real function pipeline (values: see C12)",
                        "timescales at 1e-2 relative (32-bit budget, ln table)"]
    b = core.build_repo()
    core.activate(b)
    d = core.spec_tmp(SPEC_DIR)
    jobs = []
    for i, sc in enumerate(SCOPES[ctx.tier]):
        k = {a: str(v) for a, v in sc.items()}
        cfg = core.write_cfg(os.path.join(d, "m%d.cfg" % i), constants=dict(k, Emit="FALSE"), invariants=INVS)
        jobs.append(dict(module="MSMObj", cfg=os.path.basename(cfg), cwd=d, label="exhaustive %s" % sc,
                         coverage=True, workers=5, timeout=1500))
        cfg = core.write_cfg(os.path.join(d, "e%d.cfg" % i), constants=dict(k, Emit="TRUE"), invariants=["EmitInv"],
                             constraints=["EmitBound"])
        jobs.append(dict(module="MSMObj", cfg=os.path.basename(cfg), cwd=d, label="emit %s" % sc, workers=1,
                         timeout=1500))
    res = ctx.tlc_parallel(jobs)
    for i, sc in enumerate(SCOPES[ctx.tier]):
        cases = [p for t, p in res[2 * i + 1].prints if t == "CASE"]
        if not cases:
            raise core.MachineryError("no CASE lines for %s" % sc)
        args = [(c, k % 5 == 0) for k, c in enumerate(cases)]
        out = core.pmap(replay_case, args, chunk=100)
        for (c, _), bad in zip(args, out):
            nontriv = any(len(t) > c["cfg"]["lag"] for t in c["trajs"])
            ctx.case((str(c["trajs"]), str(sorted(c["cfg"].items()))) if nontriv else None,
                     sample=c if nontriv and c["cfg"]["trim"] and len(c["allowed"][0]["keep"]) > 1 else None)
            ctx.traces += 1
            for key, detail in bad:
                ctx.violation({"kind": "replay", "case": c, "detail": detail, "how": "MSM object vs MSMObj.tla"}, key=key)
    rare_part(ctx, d)
    spectrum_part(ctx)
    # growth beyond the listed property: the TrimMapping object and the life cycle of the estimator (construction,
    # set_params, refit, save / load, equality) -- specs/msm/TrimMapping.tla, MSMLife.tla
    from props import x_trimmap
    x_trimmap.run_part(ctx)
    # growth: bootstrap resampling, implied timescales per lag, synthetic ensembles / trajectories (Resample.tla)
    from props import x_resample
    x_resample.run_part(ctx)
