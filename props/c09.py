"""C09 -- k-medoids refinement never worsens the cost, keeps k, keeps centers in
the data; k-hybrid never worse than its k-centers start; reproducible.

Models: specs/cluster/PAM.tla and Hybrid.tla checked exhaustively by TLC over
every accept/reject history in scope (CostMonotone, KConstant, SelfConsistent,
CandidateConsistent, NoWorseThanStart/HybridNoWorse, NonEmptyClusters).
Binding: TLC enumerates (data set, metric, medoid tuple, explicit proposal list
or random, sweep count); the real kmedoids()/KMedoids/hybrid()/KHybrid run on
each with _kmedoids_pam_update wrapped and the kmedoids DEBUG records captured;
every proposal (cluster, old medoid, proposal, old cost, new cost, accepted)
and every sweep result is validated by TLC as an instance of
Propose;Reassign;Accept|Reject from the specification's current state.
"""
import numpy as np

from harness import core
from props import cluster_engine as ce
from props import cluster_common as cc

SCOPES = {
    "quick": dict(
        pam=[dict(Dim=1, P=4, MinN=4, MaxN=4, MaxK=2, MetricsUsed=["l1", "l2sq"], MaxSweeps=2, ExplicitProps=True)],
        hybrid=[dict(Dim=1, P=4, MinN=4, MaxN=4, MaxK=3, Cuts=[0, 1], MetricsUsed=["l2sq"], MaxSweeps=1, WarmMax=0)]),
    "thorough": dict(
        pam=[dict(Dim=1, P=5, MinN=4, MaxN=5, MaxK=2, MetricsUsed=["l1", "l2sq"], MaxSweeps=2, ExplicitProps=True),
             # (MaxK=3 on the 2 x 2 grid did not finish in 50 minutes; MaxK=2: 4.7 million states, two minutes)
             dict(Dim=2, P=2, MinN=4, MaxN=4, MaxK=2, MetricsUsed=["linf"], MaxSweeps=1, ExplicitProps=True)],
        hybrid=[dict(Dim=1, P=5, MinN=4, MaxN=5, MaxK=3, Cuts=[0, 1], MetricsUsed=["l1", "l2sq"], MaxSweeps=2, WarmMax=1)]),
}


def pam_runs(case, j):
    base = dict(pts=case["pts"], metric=case["metric"], algo="kmedoids", k=0, cut=0, init=ce.to0(case["init"]),
                sweeps=case["sweeps"], form="function")
    if case["props"]:
        out = [dict(base, props=ce.to0(case["props"]))]
        if j % 3 == 1:       # the same warm start in (trajectory, frame) pair form, with the consistent labels handed over
            out.append(dict(base, props=ce.to0(case["props"]), warm="pairs"))
        return out
    out = [dict(base, seed=j % 17)]
    if j % 5 == 2:           # no sweep at all: the state derived from the given medoids is the result
        out.append(dict(base, sweeps=0, seed=j % 17, form=("function", "estimator")[j % 2]))
    if j % 3 == 0:
        out.append(dict(base, seed=j % 17, warm="assignments"))
    if j % 3 == 1:
        out.append(dict(base, seed=j % 17, warm="pairs"))
    if j % 4 == 0:
        out.append(dict(base, k=len(case["init"]), init=[], seed=j % 13))      # cold start, seeded
    if j % 6 == 0:
        out.append(dict(base, k=len(case["init"]), init=[], form="estimator"))  # estimator, unseeded
    return out


def hybrid_runs(case, j):
    if case["ti"] or case["init"]:
        return []
    base = dict(pts=case["pts"], metric=case["metric"], algo="hybrid", k=case["k"], cut=case["cut"], init=[],
                seed=j % 11)
    out = [dict(base, sweeps=1 + j % 2, form="function")]
    if j % 3 == 0:
        out.append(dict(base, sweeps=j % 3, form="estimator"))
    return out


def run(ctx):
    ctx.rule = ("TLC enumerates (ordered distinct lattice points, metric, medoid tuple, proposal list or random, sweeps) "
                "and k-hybrid configurations; one trace = one run of the real code; non-trivial = at least one accepted "
                "and one rejected proposal or a sweep that changed a medoid")
    ctx.assumptions += ["integer-lattice data; costs are exact integers N*mean-square (Euclidean: sums of squared distances)",
                        "proposals of random runs are taken from the kmedoids DEBUG log records; if the records are "
                        "missing the sweep is validated at sweep granularity (coarse) only"]
    b = core.build_repo()
    core.activate(b)
    d = core.spec_tmp(ce.SPEC_DIR)
    sc = SCOPES[ctx.tier]
    jobs = []
    for i, s in enumerate(sc["pam"]):
        jobs.append(ce.model_job(d, "PAM", s, "pam%d" % i, workers=5))
        jobs.append(ce.input_job(d, "PAM", s, "pin%d" % i))
    for i, s in enumerate(sc["hybrid"]):
        jobs.append(ce.model_job(d, "Hybrid", s, "hy%d" % i, workers=5))
        jobs.append(ce.input_job(d, "KCenters", s, "hin%d" % i))
    res = ctx.tlc_parallel(jobs)
    runs = []
    npam = len(sc["pam"])
    for i in range(npam):
        cases = [p for t, p in res[2 * i + 1].prints if t == "CASE"]
        if not cases:
            raise core.MachineryError("no PAM inputs")
        if ctx.tier == "quick":
            cases = [c for j, c in enumerate(cases) if not c["props"] or j % 3 == ctx.seed % 3]
        for j, c in enumerate(cases):
            runs += pam_runs(c, j)
    for i in range(len(sc["hybrid"])):
        cases = [p for t, p in res[2 * (npam + i) + 1].prints if t == "CASE"]
        for j, c in enumerate(cases):
            runs += hybrid_runs(c, j)
    rng = np.random.RandomState(ctx.seed + 9)
    extra = ce.random_runs(rng, 12000 if ctx.tier == "thorough" else 600, ["kmedoids", "hybrid"],
                           max_n=30 if ctx.tier == "thorough" else 14)
    ctx.exhaustive = False
    cap = 12000 if ctx.tier == "quick" else 60000       # (thorough: five times the quick share; the full product of the
    if len(runs) > cap:                                 # thorough scopes is hundreds of thousands of runs -- hours)
        stride = -(-len(runs) // cap)
        ctx.notes["runs_enumerated"] = len(runs)
        runs = runs[ctx.seed % stride::stride]
        ctx.exhaustive = False
    runs += extra         # seeded random data sets beyond the enumerated scope
    coarse = [0]

    def each(tr):
        pr = [e for e in tr["events"] if e["ev"] == "prop"]
        coarse[0] += sum(1 for e in tr["events"] if e["ev"] == "sweep" and e.get("coarse"))
        nontriv = any(e["accepted"] for e in pr) and any(not e["accepted"] for e in pr)
        ctx.case((str(tr["pts"]), tr["metric"], tr["algo"], str(tr["init"]), str(tr["props"]), tr["sweeps"], tr["seed"],
                  tr["form"], tr["k"], tr["cut"]) if nontriv else None,
                 sample={k: tr[k] for k in ("pts", "metric", "algo", "init", "props", "sweeps", "form")} |
                        {"events": [e for e in tr["events"] if e["ev"] == "prop"][:4]} if nontriv else None)
    ce.record_validate_judge(ctx, runs, each, "k-medoids / k-hybrid traces")
    ctx.notes["coarse_sweeps(no DEBUG records)"] = coarse[0]
