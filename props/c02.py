"""C02 -- k-centers picks farthest points, never widens the radius, stops exactly
on cue, and the triangle-inequality shortcut is exact.

Model: specs/cluster/KCenters.tla checked exhaustively by TLC (greedy step as
an action guarded by "any farthest frame", RadiusMonotone, TwoApprox against a
brute-force optimum over all k-subsets, StopExact, ShortcutExact, metric
axioms).  Binding: TLC enumerates every (data set, metric, n_clusters, cutoff,
shortcut, warm start) of the scope; the real kcenters() / KCenters().fit() is
run on each with _kcenters_iteration wrapped, and every recorded iteration is
validated by TLC as an instance of Iterate (Trace_Cluster.tla).
"""
import os

import numpy as np

from harness import core
from props import cluster_engine as ce
from props import cluster_common as cc

SCOPES = {
    "quick": [dict(Dim=1, P=4, MinN=3, MaxN=4, MaxK=3, Cuts=[0, 1, 2], MetricsUsed=["l1", "l2sq"], WarmMax=1)],
    "thorough": [dict(Dim=1, P=5, MinN=3, MaxN=5, MaxK=4, Cuts=[0, 1, 2], MetricsUsed=["l1", "l2sq"], WarmMax=2),
                 dict(Dim=2, P=2, MinN=4, MaxN=4, MaxK=3, Cuts=[0, 2], MetricsUsed=["l2sq", "linf"], WarmMax=1)],
}


def _d(metric, a, b):
    df = [abs(x - y) for x, y in zip(a, b)]
    return sum(df) if metric == "l1" else max(df) if metric == "linf" else sum(v * v for v in df)


def offdata_variants(case):
    """input generation only: the warm start of an enumerated case moved off the data -- every initial center is
    shifted to a lattice point that is not a frame, keeping only variants in which each initial center strictly
    owns at least one frame (so that the located center frames are well defined whatever the tie-breaks)"""
    if not case["init"]:
        return []
    pts, m = [list(p) for p in case["pts"]], case["metric"]
    out = []
    for shift in (1, -1, 3):
        q = [[pts[i - 1][0] + shift] + pts[i - 1][1:] for i in case["init"]]
        if any(x in pts for x in q) or len({tuple(x) for x in q}) < len(q):
            continue
        owns = [any(all(_d(m, p, q[c]) < _d(m, p, q[o]) for o in range(len(q)) if o != c) for p in pts) for c in range(len(q))]
        if not all(owns):
            continue
        out.append(dict(pts=case["pts"], metric=m, algo="kcenters", k=case["k"], cut=case["cut"], ti=case["ti"],
                        init=[], initXY=q, form="function", dtype="float64"))
        if m == "linf" or (m == "l1" and len(case["pts"][0]) == 1):      # (in one dimension L1 = Linf)
            # integer DATA continued from centers with a fractional part (means, centroids): on the doubled lattice
            # the data are the even points and the centers odd ones; the real run gets the halves (scale 1/2), the
            # data in an integer type, the centers as floats (callable metric: the typed kernels want one type)
            out.append(dict(pts=[[2 * v for v in p] for p in case["pts"]], metric="linf", algo="kcenters", k=case["k"],
                            cut=2 * case["cut"], ti=case["ti"], init=[], initXY=[[2 * v + 1 for v in x] for x in q],
                            form="function", dtype=("int64", "int32")[shift % 2], scale=0.5, layout="C"))
    return out


def run(ctx):
    ctx.rule = ("TLC enumerates every ordered set of distinct lattice points x metric x n_clusters x cutoff x "
                "shortcut x warm start in scope; one trace = one run of the real k-centers on one of them; "
                "non-trivial = at least two centers chosen and at least one frame that is not a center")
    ctx.assumptions += ["integer-lattice data (L1/Linf exact, Euclidean compared squared)",
                        "2-approximation is checked against the optimum over centers chosen among the frames",
                        "metrics: libdist.euclidean, libdist.manhattan, a Python callable (Linf)"]
    b = core.build_repo()
    core.activate(b)
    d = core.spec_tmp(ce.SPEC_DIR)
    jobs = []
    for i, sc in enumerate(SCOPES[ctx.tier]):
        jobs.append(ce.model_job(d, "KCenters", sc, "kc%d" % i, workers=6))
        jobs.append(ce.input_job(d, "KCenters", sc, "kin%d" % i))
    res = ctx.tlc_parallel(jobs)
    runs = []
    for i, sc in enumerate(SCOPES[ctx.tier]):
        cases = [p for t, p in res[2 * i + 1].prints if t == "CASE"]
        if not cases:
            raise core.MachineryError("no inputs emitted for %s" % sc)
        for j, c in enumerate(cases):
            forms = ("function", "estimator") if j % 5 == 0 else ("function",)
            dts = ("float64", "float32") if j % 7 == 0 else ("float64",)
            runs += ce.kc_runs(c, forms=forms, dtypes=dts, beyond=(j % 5 == 1))
            runs += offdata_variants(c)
    if ctx.tier == "thorough":
        rng = np.random.RandomState(ctx.seed + 2)
        runs += ce.random_runs(rng, 20000, ["kcenters"])
        ctx.exhaustive = False
    cap = 15000 if ctx.tier == "quick" else 60000       # (thorough: five times the quick share; the full product of the
    if len(runs) > cap:                                 # thorough scopes is hundreds of thousands of runs -- hours)
        stride = -(-len(runs) // cap)
        ctx.notes["runs_enumerated"] = len(runs)
        runs = runs[ctx.seed % stride::stride]
        ctx.exhaustive = False
    # the recorded finding of known_findings.json is replayed in every tier (doubled lattice: frames 1, 0, 4 and the
    # initial centers 2.5, 5.5; more clusters than frames; triangle shortcut)
    runs.append(dict(pts=[[2], [0], [8]], metric="linf", algo="kcenters", k=4, cut=0, ti=True, init=[], initXY=[[5], [11]],
                     form="function", dtype="int32", scale=0.5, layout="C"))

    def each(tr):
        ncent = max([len(e.get("ctrIdx", [])) for e in tr["events"]] + [0])
        nontriv = ncent >= 2 and ncent < len(tr["pts"])
        ctx.case((str(tr["pts"]), tr["metric"], tr["k"], tr["cut"], tr["ti"], str(tr["init"]), tr["form"], tr["dtype"])
                 if nontriv else None,
                 sample={k: tr[k] for k in ("pts", "metric", "k", "cut", "ti", "init", "form")} | {"events": tr["events"][:3]}
                 if nontriv and tr["init"] else None)
    ce.record_validate_judge(ctx, runs, each, "k-centers traces")
