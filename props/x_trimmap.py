"""x_trimmap -- the TrimMapping object and the life cycle of the MSM estimator (growth item 1 of DESIGN.md 10).

specs/msm/TrimMapping.tla : TrimMapping as a state machine over an abstract injective partial map (original ->
    trimmed) and the concrete `to_original` dict; operations Construct / SetMapped / SetOriginal / Poke / Copy / Save /
    WriteForeign / Load / Eq / EqList / EqOther / Repr over a world of a few names and files.
specs/msm/MSMLife.tla     : New / FromAssignments / Twin / SetParam / Fit / Refit / Save / Load / Eq / Describe over two
    estimator names; the configuration an object REPORTS vs the configuration its fitted parts were COMPUTED with;
    counting / trimming / building are the definition-level operators of MSMObj.tla (INSTANCE).

Binding, direction (A) spec -> code: TLC checks the invariants on small scopes and EMITS operation histories together
with the observable state after every step (`trail`, computed at definition level by the specification).  The driver
replays every history step by step into real objects (files in a scratch directory) and compares ALL observers with
the emitted observation after EVERY step.  The driver holds no oracle: every expected value below comes out of a
`PrintT(<<"CASE", ToJson(..)>>)` line.  What the driver does compute is the projection of Python objects to the
integers / strings / rationals the specification talks about.

Histories come from these TLC runs per module (one JVM each, <= 2 workers, at most 4 at a time):
  * exhaustive, history hidden by VIEW HistView: the design-level check (all invariants / action properties, coverage);
    for MSMLife additionally over EVERY assignment set of the MSMObj scope S=2 with any constructor configuration
  * exhaustive with emission, VIEW OpView = (state, last operation with its arguments) and VIEW TransView = (observation
    before, operation, state after): one emitted history per operation and resulting state / per distinct transition
    (bounded depth) -- a plain state view would never emit an operation whose result some other operation reached first
  * TrimMapping: every history of length 2 of a one-name world with all container forms / entry points;
    MSMLife: every life cycle of 4 (thorough: 5) pairwise different operations (OpBudget = 1)
  * -simulate: random walks of length 8..9 in a larger scope (three names, two files; any constructor configuration),
    no operation kind more than 3 (2) times per walk
A history that is a proper prefix of another emitted one is not replayed separately.

Gates.  On the pinned tree some input classes deviate from the definition.  The specifications keep the definition;
the classes are switched off by the named constants below (FALSE = class not generated), so the part is silent on
the unchanged tree.  `XTM_GATES=Name,Name python ...` switches classes on to reproduce the findings.
"""
import copy
import io
import json
import os
import pickle
import shutil
import time
import warnings

import numpy as np

from harness import core

SPEC_DIR = os.path.join(core.SPECS, "msm")

# ---- gates of TrimMapping.tla (all genuine deviations of the pinned tree, reported to the lead) ----------------------
TM_GATES = {
    # TrimMapping() / TrimMapping([]) / TrimMapping(None): `if transformations:` skips the only assignment of
    # `to_original`; the object then has NO attribute: to_original, to_mapped, repr, write raise AttributeError,
    # TrimMapping() == TrimMapping() is False, TrimMapping() == tm raises; `empty_tm == []` is False although
    # TrimMapping(zip([], [])) and a header-only file give a perfectly good empty mapping.
    "EmptyFromFalsy": False,
    # pairs / dicts / file rows that are not an injective map, e.g. TrimMapping([(0, 0), (0, 1)]): accepted, the last
    # pair per key wins, to_original == {0: 0, 1: 0} but to_mapped == {0: 1} -- the two views are no longer inverse;
    # `tm == [(0, 0), (2, 1), (3, 1)]` is True for tm = {(0,0),(3,1)}.  Definition: rejected.
    "NonInjective": False,
    # a data row with one field ("0" then "1,0"): columns are collected separately and zipped, so the mapping is
    # silently shifted / truncated instead of being rejected.
    "MalformedRows": False,
}
# ---- gates of MSMLife.tla ------------------------------------------------------------------------------------------
ML_GATES = {
    # MSM.config (what save() pickles, what load() feeds to the constructor) has no max_n_states: the loaded estimator
    # reports max_n_states=None and refits to a different shape.
    # (repaired in /repo 30dd8d6: the class is part of the scope)
    "PersistMaxN": True,
    # repr / str / == / result_ of an estimator that was never fit: result_ reads self.tcounts_ -> AttributeError
    # (the code plainly intends `None`); `fitted == unfitted` raises as well.
    "UnfitObservers": False,
    # set_params(method="transpose") or m.method = "transpose": only __init__ resolves a builder name; the next fit
    # calls a str -> TypeError, while a fresh MSM(method="transpose") works.
    "MethodByName": False,
    # save(path, force=True) onto an existing model directory: os.remove(<directory>) -> IsADirectoryError.
    # (repaired in /repo 2e55ab0)
    "ForceOverwrite": True,
    # m == 3 / "ab" / None: other.config -> AttributeError (definition: False).
    "EqForeign": False,
    # one-state model: np.loadtxt returns a 0-d array, loaded.eq_probs_.shape == () instead of (1,).
    # (repaired in /repo 8ae3c95)
    "SingleStateIO": True,
    # a == b for two FITTED estimators with equal lag/method/trim/sliding_window and a different number of states
    # (max_n_states differs): np.all(self.eq_probs_ == other.eq_probs_) on shapes (3,) vs (4,) -> ValueError.
    "EqShapeClash": False,
}

_ON = set(x for x in os.environ.get("XTM_GATES", "").split(",") if x)
for _g in (TM_GATES, ML_GATES):
    for _k in _g:
        if _k in _ON:
            _g[_k] = True

TM_INVS = ["Abstraction", "ViewsInverse", "SaveLoadIdentity", "WritesSorted", "WritesDeterministic", "EqAgreesAbstract",
           "EqEquivalence", "EqListAgrees", "UniverseLaws"]
TM_PROPS = ["LoadRestores", "RejectedChangesNothing", "ObserversPure", "OthersUntouched"]
ML_INVS = ["ConfigStored", "PartsArePipeline", "NoResidue", "MappingWellFormed", "MappingRoundTrip", "EqAgrees"]
ML_PROPS = ["FitLikeFresh", "StaleOnlyAfterSetParam", "SaveLoadIdentity", "SaveStoresObject", "ObserversPure",
            "RejectedChangesNothing"]
# actions that a gate switches off completely (excluded from the vacuity check)
ML_GATED_ACTIONS = {"EqOther": "EqForeign"}

_JVM = ("-XX:ParallelGCThreads=2", "-XX:CICompilerCount=2")     # modest CPU: TLC's defaults start one GC thread per core
_ROOT = None          # scratch directory for files (set in run_part before workers fork)


def _tla(v):
    return "TRUE" if v is True else "FALSE" if v is False else str(v)


def _workdir():
    d = os.path.join(_ROOT, "p%d" % os.getpid())
    os.makedirs(d, exist_ok=True)
    return d


def _exc(ex):
    return "%s: %s" % (type(ex).__name__, str(ex)[:160])


# =====================================================================================================================
# TrimMapping: replay

def _pairs(d):
    """projection of a dict to the sorted list of [key, value] integer pairs"""
    return sorted([int(k), int(v)] for k, v in d.items())


def _container(pairs, form):
    ps = [(int(o), int(t)) for o, t in pairs]
    if form == "list":
        return list(ps)
    if form == "tuple":
        return tuple(ps)
    if form == "lists":
        return [list(p) for p in ps]
    if form == "zip":
        return zip([p[0] for p in ps], [p[1] for p in ps])
    if form == "gen":
        return (p for p in ps)
    raise ValueError(form)


def _tm_apply(op, objs, paths):
    """Executes one operation on the real objects.  Returns (kind, value): ("ok", None), ("raise", text),
    ("bool", [values of all the ways the comparison can be written]), ("str", [repr, str])."""
    from enspara.msm.transition_matrices import TrimMapping
    name = op["op"]
    try:
        if name == "construct":
            objs[op["s"]] = TrimMapping() if op["form"] == "none" else TrimMapping(_container(op["pairs"], op["form"]))
        elif name == "setmapped":
            objs[op["s"]].to_mapped = {int(o): int(t) for o, t in op["pairs"]}
        elif name == "setoriginal":
            objs[op["s"]].to_original = {int(t): int(o) for o, t in op["pairs"]}
        elif name == "poke":
            objs[op["s"]].to_original[op["t"]] = op["o"]
        elif name == "copy":
            src = objs[op["a"]]
            objs[op["b"]] = copy.deepcopy(src) if op["how"] == "deepcopy" else pickle.loads(pickle.dumps(src))
        elif name == "save":
            if op["how"] == "save":
                objs[op["s"]].save(paths[op["f"]])
            else:
                with open(paths[op["f"]], "w") as fh:
                    objs[op["s"]].write(fh)
        elif name == "foreign":
            with open(paths[op["f"]], "w", newline="") as fh:
                fh.write("".join(l + "\r\n" for l in op["lines"]))
        elif name == "load":
            if op["how"] == "load":
                objs[op["s"]] = TrimMapping.load(paths[op["f"]])
            else:
                with open(paths[op["f"]], "r") as fh:
                    objs[op["s"]] = TrimMapping.read(fh)
        elif name == "eq":
            a, b = objs[op["a"]], objs[op["b"]]
            return "bool", [a == b, not (a != b)]
        elif name == "eqlist":
            a = objs[op["s"]]
            return "bool", [a == _container(op["pairs"], op["form"]), _container(op["pairs"], op["form"]) == a,
                            not (a != _container(op["pairs"], op["form"]))]
        elif name == "eqother":
            a = objs[op["s"]]
            other = {"int": 3, "str": "ab", "none": None, "float": 1.5, "object": object()}[op["kind"]]
            return "bool", [a == other, other == a, not (a != other)]
        elif name == "repr":
            return "str", [repr(objs[op["s"]]), str(objs[op["s"]])]
        else:
            raise core.MachineryError("unknown operation %r" % name)
    except core.MachineryError:
        raise
    except Exception as ex:                                        # the implementation's exceptions are results
        return "raise", _exc(ex)
    return "ok", None


def _tm_observe(objs, paths, exp):
    """Compares every observer of the real world with the specification's observation `exp`; returns [(what, detail)]"""
    bad = []
    for i, eo in enumerate(exp["objs"]):
        s = i + 1
        if (s in objs) != eo["live"]:
            bad.append(("bound", {"slot": s, "expected_live": eo["live"]}))
            continue
        if not eo["live"]:
            continue
        o = objs[s]
        try:
            to, tmap = o.to_original, o.to_mapped
            if not isinstance(to, dict) or not isinstance(tmap, dict):
                bad.append(("view-type", {"slot": s, "types": [type(to).__name__, type(tmap).__name__]}))
                continue
            if _pairs(to) != eo["to_original"]:
                bad.append(("to_original", {"slot": s, "got": _pairs(to), "expected": eo["to_original"]}))
            if _pairs(tmap) != eo["to_mapped"]:
                bad.append(("to_mapped", {"slot": s, "got": _pairs(tmap), "expected": eo["to_mapped"]}))
            r = [repr(o), str(o)]
            if any(x not in eo["repr"] for x in r):
                bad.append(("repr", {"slot": s, "got": r, "allowed": eo["repr"]}))
        except Exception as ex:
            bad.append(("observer-raises", {"slot": s, "error": _exc(ex)}))
    # the whole == matrix, both directions
    for a in sorted(objs):
        for b in sorted(objs):
            want = exp["eq"][a - 1][b - 1]
            try:
                got = [objs[a] == objs[b], not (objs[a] != objs[b])]
            except Exception as ex:
                bad.append(("eq-matrix", {"a": a, "b": b, "error": _exc(ex), "expected": want}))
                continue
            if any(bool(g) is not want for g in got):
                bad.append(("eq-matrix", {"a": a, "b": b, "got": got, "expected": want}))
    for i, ed in enumerate(exp["disk"]):
        p = paths[i + 1]
        if os.path.exists(p) != ed["present"]:
            bad.append(("file-present", {"file": i + 1, "expected": ed["present"]}))
        elif ed["present"]:
            with open(p, "r", newline="") as fh:
                text = fh.read()
            if text.splitlines() != ed["lines"]:
                bad.append(("file", {"file": i + 1, "got": text, "expected_lines": ed["lines"]}))
    return bad


def replay_tm(case):
    """One history.  Returns [] or [(key suffix, step index, detail)] for the FIRST step that deviates."""
    hist, trail = case["hist"], case["trail"]
    d = _workdir()
    paths = {f + 1: os.path.join(d, "map%d.csv" % (f + 1)) for f in range(len(trail[0]["disk"]))}
    for p in paths.values():
        if os.path.exists(p):
            os.remove(p)
    objs = {}
    for i, op in enumerate(hist):
        exp = trail[i + 1]
        kind, val = _tm_apply(op, objs, paths)
        er = exp["res"]
        bad = []
        if er["k"] == "raise":
            if kind != "raise":
                bad.append(("accepted", {"expected": "rejected (an exception)", "got": kind}))
        elif kind == "raise":
            bad.append(("raises", {"error": val, "expected": er["k"]}))
        elif er["k"] == "bool":
            if kind != "bool" or any(bool(v) is not er["b"] for v in val):
                bad.append(("result", {"got": val, "expected": er["b"]}))
        elif er["k"] == "str":
            if kind != "str" or any(v not in er["s"] for v in val):
                bad.append(("result", {"got": val, "allowed": er["s"]}))
        bad += _tm_observe(objs, paths, exp)
        if bad:
            return [("%s/%s" % (op["op"], what), i, detail) for what, detail in bad]
    return []


# =====================================================================================================================
# MSM life cycle: replay

_PKEY = {"lag": "lag_time", "method": "method", "trim": "trim", "sliding": "sliding_window", "maxn": "max_n_states"}


def _mname(m):
    return m if isinstance(m, str) else getattr(m, "__name__", repr(m))


def _kwargs(cfg, byname):
    from enspara.msm import builders
    return dict(lag_time=cfg["lag"], method=cfg["method"] if byname else getattr(builders, cfg["method"]),
                trim=cfg["trim"], sliding_window=cfg["sliding"], max_n_states=None if cfg["maxn"] == 0 else cfg["maxn"])


def _proj_params(p):
    return {"lag": p.get("lag_time"), "method": _mname(p.get("method")), "trim": p.get("trim"),
            "sliding": p.get("sliding_window"), "maxn": 0 if p.get("max_n_states") is None else p.get("max_n_states")}


def _dense(x):
    import scipy.sparse as sp
    return np.asarray(x.toarray()) if sp.issparse(x) else np.asarray(x)


def _rat(mat):
    return np.array([[(t[0] / t[1] if t[1] else 0.0) for t in row] for row in mat], dtype=float).reshape(len(mat), len(mat))


def _cmp_parts(prefix, ep, counts, tprobs, eq, to_original, to_mapped, maplines):
    """fitted parts (of an object or of the files on disk) against the specification's parts"""
    bad = []
    n = len(ep["keep"])
    W = np.array(ep["counts"], dtype=float).reshape(n, n) * (0.5 if ep["half"] else 1.0)
    counts = np.asarray(counts, dtype=float)
    if counts.shape != W.shape or not np.allclose(counts, W, rtol=1e-12, atol=0):
        bad.append((prefix + "tcounts", {"got": counts.tolist(), "expected": W.tolist()}))
    T = _rat(ep["tprobs"])
    tprobs = np.asarray(tprobs, dtype=float)
    if tprobs.shape != T.shape or not np.allclose(tprobs, T, rtol=1e-12, atol=1e-15):
        bad.append((prefix + "tprobs", {"got": tprobs.tolist(), "expected": T.tolist()}))
    eq = np.asarray(eq, dtype=float)
    if eq.shape != (n,):
        bad.append((prefix + "eq_probs-shape", {"got": list(eq.shape), "expected": [n]}))
    elif ep["pops"] and ep["pops"][0][1] > 0:                       # closed form only for the symmetrised builder
        p = np.array([x[0] / x[1] for x in ep["pops"]])
        if not np.allclose(eq, p, rtol=1e-9, atol=1e-12):
            bad.append((prefix + "eq_probs", {"got": eq.tolist(), "expected": p.tolist()}))
    if to_original != ep["to_original"] or to_mapped != ep["to_mapped"]:
        bad.append((prefix + "mapping", {"to_original": to_original, "to_mapped": to_mapped,
                                         "expected": [ep["to_original"], ep["to_mapped"]]}))
    if maplines != ep["mapfile"]:
        bad.append((prefix + "mapfile", {"got": maplines, "expected": ep["mapfile"]}))
    return bad


def _ml_observe_obj(m, eo):
    from enspara.exception import ImproperlyConfigured
    bad = []
    got = _proj_params(m.get_params())
    if got != eo["params"]:
        bad.append(("params", {"got": got, "expected": eo["params"]}))
    conf = dict(m.config)
    gotc = {"lag": conf.get("lag_time"), "method": _mname(conf.get("method")), "trim": conf.get("trim"),
            "sliding": conf.get("sliding_window"),
            "maxn": 0 if conf.get("max_n_states") is None else conf.get("max_n_states")}
    if gotc != eo["config"]:
        bad.append(("config", {"got": gotc, "expected": eo["config"]}))
    fitted = all(hasattr(m, a) for a in ("tcounts_", "tprobs_", "eq_probs_", "mapping_"))
    if fitted != eo["fitted"]:
        bad.append(("fitted", {"got": fitted, "expected": eo["fitted"],
                               "attributes": [a for a in ("tcounts_", "tprobs_", "eq_probs_", "mapping_") if hasattr(m, a)]}))
        return bad
    try:
        ns = int(m.n_states_)
    except ImproperlyConfigured:
        ns = 0
    if ns != eo["nstates"]:
        bad.append(("n_states_", {"got": ns, "expected": eo["nstates"]}))
    if fitted:
        buf = io.StringIO()
        m.mapping_.write(buf)
        bad += _cmp_parts("", eo["parts"], _dense(m.tcounts_), _dense(m.tprobs_), m.eq_probs_,
                          _pairs(m.mapping_.to_original), _pairs(m.mapping_.to_mapped), buf.getvalue().splitlines())
        r = m.result_
        if sorted(r) != ["eq_probs_", "mapping_", "tcounts_", "tprobs_"] or r["mapping_"] is not m.mapping_:
            bad.append(("result_", {"keys": sorted(r)}))
    return bad


def _disk_signature(path):
    return tuple(sorted((f, st.st_size, st.st_mtime_ns) for f in os.listdir(path)
                        for st in [os.stat(os.path.join(path, f))]))


def _ml_observe_disk(path, ed, seen):
    """`seen`: (file signature, expected observation) of the last comparison that passed -- the files are parsed again
    only when a file or the expectation changed (parsing Matrix Market files dominates the replay otherwise)."""
    from scipy.io import mmread
    bad = []
    if os.path.isdir(path) != ed["present"]:
        return [("disk-present", {"expected": ed["present"]})]
    if not ed["present"]:
        return bad
    sig = (_disk_signature(path), json.dumps(ed, sort_keys=True))
    if seen.get("ok") == sig:
        return bad
    names = json.load(open(os.path.join(path, "manifest.json")))
    with open(os.path.join(path, names["config"]), "rb") as fh:
        conf = pickle.load(fh)
    got = _proj_params(conf)
    if got != ed["params"]:
        bad.append(("disk-params", {"got": got, "expected": ed["params"], "pickled_keys": sorted(conf)}))
    with open(os.path.join(path, names["mapping_"]), "r", newline="") as fh:
        lines = fh.read().splitlines()
    ep = ed["parts"]
    bad += _cmp_parts("disk-", ep, _dense(mmread(os.path.join(path, names["tcounts_"]))),
                      _dense(mmread(os.path.join(path, names["tprobs_"]))),
                      np.loadtxt(os.path.join(path, names["eq_probs_"]), ndmin=1), ep["to_original"], ep["to_mapped"], lines)
    if not bad:
        seen["ok"] = sig
    return bad


def _ml_apply(op, objs, assigns, path):
    import sklearn.base
    from enspara.msm import MSM, builders
    name = op["op"]
    try:
        with warnings.catch_warnings():
            warnings.simplefilter("ignore")
            if name == "new":
                objs["a"] = MSM(**_kwargs(op["cfg"], op["byname"]))
            elif name == "from_assignments":
                objs["a"] = MSM.from_assignments(assigns, **_kwargs(op["cfg"], op["byname"]))
            elif name == "twin":
                objs["b"] = sklearn.base.clone(objs["a"]) if op["how"] == "clone" else MSM(**_kwargs(op["cfg"], False))
            elif name == "setparam":
                v = op["v"]
                if op["k"] == "method" and not op["byname"]:
                    v = getattr(builders, v)
                if op["k"] == "maxn" and v == 0:
                    v = None
                if op["how"] == "attr":
                    setattr(objs[op["x"]], _PKEY[op["k"]], v)
                else:
                    ret = objs[op["x"]].set_params(**{_PKEY[op["k"]]: v})
                    if ret is not objs[op["x"]]:
                        return "raise", "set_params did not return the estimator"
            elif name in ("fit", "refit"):
                objs[op["x"]].fit(assigns)
            elif name == "save":
                objs[op["x"]].save(path, force=op["force"])
            elif name == "load":
                objs["b"] = MSM.load(path)
            elif name == "eq":
                return "bool", [objs[op["x"]] == objs[op["y"]]]
            elif name == "eqother":
                other = {"int": 3, "str": "ab", "none": None}[op["kind"]]
                return "bool", [objs[op["x"]] == other]
            elif name == "describe":
                return "str", [repr(objs[op["x"]]), str(objs[op["x"]])]
            else:
                raise core.MachineryError("unknown operation %r" % name)
    except core.MachineryError:
        raise
    except Exception as ex:
        return "raise", _exc(ex)
    return "ok", None


def replay_ml(case):
    from enspara import ra
    hist, trail = case["hist"], case["trail"]
    d = _workdir()
    path = os.path.join(d, "model")
    shutil.rmtree(path, ignore_errors=True)
    assigns = ra.RaggedArray([np.array(t) for t in case["trajs"]])
    objs = {}
    seen = {}
    try:                                   # harness-side: the Matrix Market reader/writer starts a thread pool per call
        import scipy.io._fast_matrix_market as fmm
        fmm.PARALLELISM = 1
    except Exception:
        pass
    for i, op in enumerate(hist):
        exp = trail[i + 1]
        kind, val = _ml_apply(op, objs, assigns, path)
        er = exp["res"]
        bad = []
        if er["k"] == "raise":
            if kind != "raise":
                bad.append(("accepted", {"expected": "rejected (an exception)", "got": kind}))
        elif kind == "raise":
            bad.append(("raises", {"error": val, "expected": er["k"]}))
        elif er["k"] == "bool":
            if kind != "bool" or any(bool(v) is not er["b"] for v in val):
                bad.append(("result", {"got": val, "expected": er["b"]}))
        elif er["k"] == "str":
            if kind != "str" or any(not v.startswith(er["s"][0]) for v in val):
                bad.append(("result", {"got": [v[:60] for v in val], "prefix": er["s"]}))
        try:
            with warnings.catch_warnings():
                warnings.simplefilter("ignore")
                for x in ("a", "b"):
                    if (x in objs) != exp[x]["live"]:
                        bad.append(("bound", {"name": x, "expected_live": exp[x]["live"]}))
                    elif x in objs:
                        bad += _ml_observe_obj(objs[x], exp[x])
                bad += _ml_observe_disk(path, exp["disk"], seen)
        except Exception as ex:
            bad.append(("observer-raises", {"error": _exc(ex)}))
        if exp["eqdef"] and "a" in objs and "b" in objs:
            try:
                got = [objs["a"] == objs["b"], objs["b"] == objs["a"]]
                if any(bool(g) is not exp["eq"] for g in got):
                    bad.append(("eq", {"got": got, "expected": exp["eq"]}))
            except Exception as ex:
                bad.append(("eq-raises", {"error": _exc(ex), "expected": exp["eq"]}))
        if bad:
            return [("%s/%s" % (op["op"], what), i, detail) for what, detail in bad]
    return []


# =====================================================================================================================
# TLC jobs

def _cfg(d, name, consts, invs=(), props=(), view=None, constraints=()):
    core.write_cfg(os.path.join(d, name), constants={k: _tla(v) for k, v in consts.items()}, invariants=list(invs),
                   properties=list(props), view=view, constraints=list(constraints))
    return name


def _drop_prefixes(cases):
    """A history that is a proper prefix of another emitted history is replayed as part of the longer one (the
    observation after every step is compared there): bookkeeping only."""
    keys = {}
    for c in cases:
        keys[json.dumps([c.get("trajs"), c["hist"]], sort_keys=True)] = c
    prefixes = set()
    for c in keys.values():
        for n in range(1, len(c["hist"])):
            prefixes.add(json.dumps([c.get("trajs"), c["hist"][:n]], sort_keys=True))
    return [c for k, c in keys.items() if k not in prefixes]


def run_part(ctx):
    global _ROOT
    quick = ctx.tier == "quick"
    b = core.build_repo()
    core.activate(b)
    _ROOT = core.scratch("ev_xtm_")
    d = core.spec_tmp(SPEC_DIR)
    tg, mg = dict(TM_GATES), dict(ML_GATES)
    jobs = []
    t0 = time.time()

    # ---- TrimMapping -------------------------------------------------------------------------------------------
    tm = lambda **kw: dict(dict(NOrig=3, NTrim=2, Slots=2, Files=1, MaxPairs=2, Depth=3, Emit=False, Variants=False, OpBudget=0),
                           **tg, **kw)
    jobs.append(dict(module="TrimMapping", cwd=d, workers=2, coverage=True, timeout=900, java_opts=("-Xmx2g",) + _JVM,
                     cfg=_cfg(d, "tm_mc.cfg", tm(Depth=3 if quick else 4), TM_INVS, TM_PROPS, "HistView"),
                     label="TrimMapping exhaustive (VIEW HistView) 3 original x 2 trimmed ids, 2 names, 1 file, depth %d"
                           % (3 if quick else 4)))
    jobs.append(dict(module="TrimMapping", cwd=d, workers=1, timeout=900, java_opts=("-Xmx2g",) + _JVM,
                     cfg=_cfg(d, "tm_op.cfg", tm(NOrig=2 if quick else 3, Emit=True, OpBudget=2 if quick else 0), ["EmitInv"], [],
                              "OpView"),
                     label="TrimMapping every operation in every state of depth <= 2 (VIEW OpView), 2 names%s"
                           % (", no operation kind more than twice" if quick else "")))
    jobs.append(dict(module="TrimMapping", cwd=d, workers=1, timeout=900, java_opts=("-Xmx2g",) + _JVM,
                     cfg=_cfg(d, "tm_tr.cfg", tm(NOrig=2, Slots=1 if quick else 2, Emit=True), ["EmitInv"], [], "TransView"),
                     label="TrimMapping every distinct transition (state before, operation, state after) of depth <= 3, "
                           "%d name(s), 1 file (VIEW TransView)" % (1 if quick else 2)))
    jobs.append(dict(module="TrimMapping", cwd=d, workers=1, timeout=900, java_opts=("-Xmx2g",) + _JVM,
                     cfg=_cfg(d, "tm_h2.cfg", tm(NOrig=2, Slots=1, Depth=2, Emit=True, Variants=True), ["EmitFull"]),
                     label="TrimMapping all histories of length 2, one name, every container form / entry point"))
    nw = 300 if quick else 3000
    jobs.append(dict(module="TrimMapping", cwd=d, workers=1, timeout=900, java_opts=("-Xmx2g",) + _JVM,
                     cfg=_cfg(d, "tm_sim.cfg", tm(NOrig=3, NTrim=3, Slots=3, Files=2, MaxPairs=2, Depth=8, Emit=True, Variants=True,
                                                  OpBudget=3), TM_INVS + ["EmitFull"]),
                     simulate="num=%d" % nw, extra=["-depth", "9"], seed=ctx.seed * 100 + 41,
                     label="TrimMapping %d simulated walks of length 8 (3x3 ids, 3 names, 2 files)" % nw))

    # ---- MSM life cycle ----------------------------------------------------------------------------------------------
    two = "{%d}" % (1 + (ctx.seed + 1) % 3)
    ml = lambda **kw: dict(dict(S=3, MaxT=1, MaxLen=3, MaxLag=2, Data="{1, 2, 3}", AnyNew=False, Variants=False, Depth=4,
                                Emit=False, OpBudget=0), **mg, **kw)
    jobs.append(dict(module="MSMLife", cwd=d, workers=2, coverage=True, timeout=1500, java_opts=("-Xmx2g",) + _JVM,
                     cfg=_cfg(d, "ml_mc.cfg", ml(Depth=4 if quick else 5, Data=two if quick else "{1, 2, 3}"), ML_INVS, ML_PROPS,
                              "HistView"),
                     label="MSMLife exhaustive (VIEW HistView) catalogue assignment sets %s, depth %d"
                           % (two if quick else "{1, 2, 3}", 4 if quick else 5)))
    jobs.append(dict(module="MSMLife", cwd=d, workers=1, timeout=1500, java_opts=("-Xmx2g",) + _JVM,
                     cfg=_cfg(d, "ml_op.cfg", ml(Depth=3, Emit=True), ["EmitInv"], [], "TransView"),
                     label="MSMLife every distinct transition (state before, operation, state after) of depth <= 3 "
                           "(VIEW TransView)"))
    jobs.append(dict(module="MSMLife", cwd=d, workers=2, coverage=True, timeout=1500, java_opts=("-Xmx2g",) + _JVM,
                     cfg=_cfg(d, "ml_all.cfg", ml(S=2, MaxT=1 if quick else 2, MaxLen=3, Data="{}", AnyNew=True, Depth=2 if quick else 3),
                              ML_INVS, ML_PROPS, "HistView"),
                     label="MSMLife exhaustive over EVERY assignment set of the MSMObj scope S=2, any constructor configuration"))
    nm = 250 if quick else 2500
    jobs.append(dict(module="MSMLife", cwd=d, workers=1, timeout=1500, java_opts=("-Xmx2g",) + _JVM,
                     cfg=_cfg(d, "ml_sim.cfg", ml(AnyNew=True, Variants=True, Depth=9, Emit=True, OpBudget=2), ML_INVS + ["EmitFull"]),
                     simulate="num=%d" % nm, extra=["-depth", "10"], seed=ctx.seed * 100 + 43,
                     label="MSMLife %d simulated life cycles of length 9 (any constructor configuration)" % nm))
    dc = 4 if quick else 5
    jobs.append(dict(module="MSMLife", cwd=d, workers=1, timeout=1500, java_opts=("-Xmx2g",) + _JVM,
                     cfg=_cfg(d, "ml_cyc.cfg", ml(Data="{%d}" % (1 + ctx.seed % 3), Depth=dc, Emit=True, OpBudget=1),
                              ["EmitFull"], [], "TransView"),
                     label="MSMLife every life cycle of %d different operations on catalogue set %d (VIEW TransView)"
                           % (dc, 1 + ctx.seed % 3)))
    order = ["tm_mc", "tm_op", "tm_tr", "tm_h2", "tm_sim", "ml_mc", "ml_op", "ml_all", "ml_sim", "ml_cyc"]
    first = ["ml_mc", "tm_mc", "tm_op", "ml_cyc"]                       # the long ones start first
    sched = first + [n for n in order if n not in first]
    out = ctx.tlc_parallel([jobs[order.index(n)] for n in sched], max_par=4)
    res = [out[sched.index(n)] for n in order]
    ctx.notes["x_trimmap_tlc_wall_s"] = round(time.time() - t0, 1)

    # vacuity: every action of the two machines fired in the exhaustive runs
    for r, acts, gated, gates in ((res[0], ["Construct", "SetMapped", "SetOriginal", "Poke", "Copy", "Save", "WriteForeign", "Load",
                                            "Eq", "EqList", "EqOther", "Repr"], {}, tg),
                                  (res[5], ["New", "FromAssignments", "Twin", "SetParam", "Fit", "Save", "Load", "Eq", "EqOther",
                                            "Describe"], ML_GATED_ACTIONS, mg)):
        for a in acts:
            if a in gated and not gates[gated[a]]:
                continue
            if not r.coverage.get(a):
                raise core.MachineryError("vacuous: action %s never fired (%s)" % (a, r.coverage))

    import sklearn.base                      # imported before the workers fork
    import enspara.msm
    import enspara.ra
    t1 = time.time()
    # ---- replay: TrimMapping -------------------------------------------------------------------------------------------
    tm_cases = []
    for k in (1, 2, 3, 4):
        got = [p for t, p in res[k].prints if t == "CASE"]
        if not got:
            raise core.MachineryError("no histories from %s" % jobs[k]["label"])
        tm_cases += got
    tm_cases = _drop_prefixes(tm_cases)
    outs = core.pmap(replay_tm, tm_cases, procs=4, chunk=500)
    ops_seen = {}
    for c, bad in zip(tm_cases, outs):
        ctx.traces += 1
        mutating = [h for h in c["hist"] if h["op"] not in ("eq", "eqlist", "eqother", "repr")]
        for h in c["hist"]:
            ops_seen[h["op"]] = ops_seen.get(h["op"], 0) + 1
        ctx.case(("tm", json.dumps(c["hist"], sort_keys=True)) if mutating else None,
                 sample={"machine": "TrimMapping", "hist": c["hist"], "final": c["trail"][-1]}
                 if len(c["hist"]) >= 6 and any(h["op"] == "load" for h in c["hist"]) else None)
        for key, step, detail in bad:
            ctx.violation({"kind": "replay", "machine": "TrimMapping", "history": c["hist"], "failing_step": step,
                           "operation": c["hist"][step], "expected_observation": c["trail"][step + 1], "detail": detail,
                           "how": "real TrimMapping objects vs TrimMapping.tla after step %d" % step},
                          key="trimmapping/" + key)
    ctx.notes["x_trimmap_tm_replay_wall_s"] = round(time.time() - t1, 1)
    ctx.notes["trimmapping_histories"] = len(tm_cases)
    ctx.notes["trimmapping_operations_replayed"] = ops_seen

    t2 = time.time()
    # ---- replay: MSM life cycle -------------------------------------------------------------------------------------------
    ml_cases = []
    for k in (6, 8, 9):
        got = [p for t, p in res[k].prints if t == "CASE"]
        if not got:
            raise core.MachineryError("no histories from %s" % jobs[k]["label"])
        ml_cases += got
    ml_cases = _drop_prefixes(ml_cases)
    outs = core.pmap(replay_ml, ml_cases, procs=4, chunk=100)
    ops_seen = {}
    for c, bad in zip(ml_cases, outs):
        ctx.traces += 1
        names = [h["op"] for h in c["hist"]]
        for n in names:
            ops_seen[n] = ops_seen.get(n, 0) + 1
        ctx.case(("ml", json.dumps([c["trajs"], c["hist"]], sort_keys=True))
                 if any(n in ("fit", "refit", "from_assignments") for n in names) else None,
                 sample={"machine": "MSMLife", "trajs": c["trajs"], "hist": c["hist"]}
                 if "refit" in names and "load" in names else None)
        for key, step, detail in bad:
            ctx.violation({"kind": "replay", "machine": "MSMLife", "trajs": c["trajs"], "history": c["hist"],
                           "failing_step": step, "operation": c["hist"][step],
                           "expected_observation": c["trail"][step + 1], "detail": detail,
                           "how": "real MSM objects vs MSMLife.tla after step %d" % step},
                          key="msm-life/" + key)
    ctx.notes["x_trimmap_ml_replay_wall_s"] = round(time.time() - t2, 1)
    ctx.notes["msm_life_histories"] = len(ml_cases)
    ctx.notes["msm_life_operations_replayed"] = ops_seen
    ctx.notes["x_trimmap_gates"] = {"TrimMapping": tg, "MSMLife": mg}
    ctx.assumptions += [
        "x_trimmap: fits are restricted to tie-free inputs with at least one counted transition (ties: C11; NaN models: C16)",
        "x_trimmap: eq_probs_ has a closed form in the specification only for method=transpose; for normalize its shape, "
        "its survival of save/load (via ==) and its equality between twin objects are checked",
        "x_trimmap: repr of a TrimMapping may list its entries in any order; the line terminator of the CSV is not modelled",
        "x_trimmap: input classes switched off on the pinned tree (reported defects): %s"
        % sorted(k for g in (tg, mg) for k, v in g.items() if not v)]


def run(ctx):
    ctx.rule = ("TLC emits operation histories of TrimMapping.tla and MSMLife.tla (every operation in every state of depth "
                "<= 2, all length-2 histories with every container form, simulated walks of length 8-9); each is replayed "
                "into real objects and all observers are compared after every step; non-trivial = a history with a "
                "mutating operation (TrimMapping) / with a fit (MSM)")
    run_part(ctx)
    ctx.exhaustive = False
