"""C12 -- the reversible estimator is a maximum-likelihood fixed point.

Direction B (code -> spec) with TLC-enumerated inputs: TLC (Builders.tla)
enumerates every strongly connected count matrix in scope; the driver runs the
real estimators (_prinz_mle_py, libmsm._mle_prinz_dense, builders.mle) on each,
records start / warn / return / raise events with the outputs as scaled
integers, and specs/msm/MLE.tla decides for every recorded execution whether it
is a behaviour of the specification (control flow + acceptance relation:
row-stochastic, support, Prinz self-consistency, detailed balance, stationary,
likelihood dominance over logged reversible competitors, agreement of the
implementations).
"""
import json
import os
import warnings

import numpy as np

from harness import core

SPEC_DIR = os.path.join(core.SPECS, "msm")

NEG = -(2 ** 30)
LIMIT = 20


def _ll(C, T):
    """projection only: log-likelihood x 1e4 of a transition matrix (the spec orders these numbers)"""
    with np.errstate(divide="ignore", invalid="ignore"):
        m = C > 0
        if np.any(T[m] <= 0):
            return NEG
        v = float(np.sum(C[m] * np.log(T[m])))
    return int(round(v * 1e4))


def competitors(C):
    """symmetric integer matrices on the support of C + C^T; index 0 is the transpose estimate"""
    n = len(C)
    Ci = np.rint(C * 1).astype(np.int64)
    X0 = Ci + Ci.T
    out = [X0]
    for i in range(n):
        for j in range(i, n):
            if X0[i, j] > 0:
                X = X0.copy()
                X[i, j] += 1
                if i != j:
                    X[j, i] += 1
                out.append(X)
                X = X0.copy() * 2
                X[i, j] -= 1
                if i != j:
                    X[j, i] -= 1
                if np.all(X[X0 > 0] > 0):
                    out.append(X)
    return out[:8]


def _scaled(T, pi):
    T = np.asarray(T, dtype=float)
    pi = np.asarray(pi, dtype=float).reshape(-1)
    if not (np.all(np.isfinite(T)) and np.all(np.isfinite(pi))):
        return None
    f = lambda a, s: np.rint(a * s).astype(np.int64).tolist()
    return dict(T6=f(T, 1e6), pi6=f(pi, 1e6), T4=f(T, 1e4), pi4=f(pi, 1e4))


TINY = 2.0 ** -40


SLOW6 = [[0, 102, 0, 0, 0, 0], [0, 663, 758, 711, 315, 0], [0, 964, 67, 529, 0, 2], [831, 0, 0, 0, 658, 0],
         [0, 0, 21, 0, 0, 0], [0, 420, 0, 0, 1862, 0]]


def run_impl(impl, Cf, cap, events):
    """Run one implementation on float matrix Cf; append events.  impl "py@tiny" / "c@tiny": the same counts
    multiplied by 2^-40 (exact in floating point) -- the estimator is invariant under a common scaling of the
    counts, so the run is judged against the SAME integer matrix and must agree with the unscaled runs."""
    Cll = Cf
    if impl.endswith("@tiny"):
        Cf = Cf * TINY
    from enspara.msm import builders
    from enspara.msm import libmsm
    events.append({"ev": "start", "impl": impl})
    kw = {} if cap == 0 else {"max_iter": cap}
    import signal

    class _Timeout(Exception):
        pass

    def _alarm(*a):
        raise _Timeout("no result after %d s (terminates in milliseconds on the pinned tree)" % LIMIT)
    old = signal.signal(signal.SIGALRM, _alarm)
    signal.alarm(LIMIT)
    try:
        with warnings.catch_warnings(record=True) as w:
            warnings.simplefilter("always")
            if impl.startswith("py"):
                T, pi = builders._prinz_mle_py(Cf.copy(), **kw)
            elif impl.startswith("c"):
                T, pi = libmsm._mle_prinz_dense(Cf.copy(), **kw)
            else:
                raise core.MachineryError(impl)
    except Exception as ex:
        events.append({"ev": "raise", "type": type(ex).__name__, "msg": str(ex)[:200]})
        return None
    finally:
        signal.alarm(0)
        signal.signal(signal.SIGALRM, old)
    if any("converge" in str(x.message).lower() or "Convergence" in x.category.__name__ for x in w):
        events.append({"ev": "warn"})
    s = _scaled(T, pi)
    if s is None:
        events.append({"ev": "raise", "type": "NonFinite", "msg": "nan/inf in output"})
        return None
    s.update(ev="return", ll4=_ll(Cll, np.asarray(T, dtype=float)))
    events.append(s)
    return T, pi


def record(arg):
    """arg = (C as list of int lists, cs, cap) -> trace record"""
    Ci, cs, cap = arg
    Cint = np.array(Ci, dtype=np.int64)
    Cf = Cint.astype(float) / cs
    ev = []
    impls = ("py", "c") if cap or (int(Cint.sum()) + len(Ci)) % 3 else ("py", "c", "py@tiny", "c@tiny")
    for impl in impls:
        run_impl(impl, Cf, cap, ev)
    comp = []
    for X in competitors(Cint):
        rs = X.sum(axis=1)
        if np.any(rs == 0):
            continue
        comp.append({"X": X.tolist(), "ll4": _ll(Cf, X / rs[:, None])})
    return {"n": len(Ci), "C": Cint.tolist(), "cs": cs, "cap": cap, "events": ev, "comp": comp}


def validate(ctx, traces, label, skip_precondition=True):
    """Run TLC on a batch of traces; returns list of (trace, set of failing clause tuples or None if no verdict)."""
    if not traces:
        return []
    d = core.spec_tmp(SPEC_DIR)
    tf = os.path.join(d, "traces.json")
    with open(tf, "w") as fh:
        json.dump(traces, fh)
    cfg = core.write_cfg(os.path.join(d, "trace.cfg"), invariants=["Report"])
    r = ctx.tlc("MLE", "trace.cfg", d, label=label, workers=1, env={"TRACE_FILE": tf}, timeout=1500)
    verdict = {}
    for t, p in r.prints:
        if t == "VERDICT":
            verdict[p[0]] = p[1]
    out = []
    for k, tr in enumerate(traces):
        v = verdict.get(k + 1)
        out.append((tr, None if v is None else {tuple(x) for x in v}))
    return out


def judge(ctx, results, site):
    for tr, v in results:
        ctx.traces += 1
        if v is None:
            ctx.violation({"kind": "trace-rejected", "clause": "ControlFlow", "trace": tr,
                           "how": "no behaviour of MLE.tla matches the recorded event sequence"},
                          key="%s/ControlFlow" % site)
            continue
        names = {c for c, _ in v}
        if "PreconditionNotMet" in names:
            continue
        for clause, run in sorted(v):
            impl = "both"
            if run:
                starts = [e for e in tr["events"] if e["ev"] == "start"]
                impl = starts[run - 1]["impl"] if run - 1 < len(starts) else "?"
            detail = ""
            if clause == "NeverCrashes":
                rz = [e for e in tr["events"] if e["ev"] == "raise"]
                detail = "/" + rz[0]["type"] if rz else ""
                detail += "/cap" if tr.get("cap") else ""
            ctx.violation({"kind": "trace-rejected", "clause": clause, "impl": impl, "trace": tr,
                           "how": "MLE.tla clause %s fails on the recorded run" % clause},
                          key="%s/%s/%s%s" % (site, impl.split(":")[0], clause, detail))


def enumerate_inputs(ctx, scopes):
    """TLC-enumerated strongly connected count matrices (CountInputs.tla)."""
    d = core.spec_tmp(SPEC_DIR)
    jobs = []
    for i, sc in enumerate(scopes):
        k = {a: str(v) for a, v in sc.items()}
        cfg = core.write_cfg(os.path.join(d, "in%d.cfg" % i), constants=k, invariants=["EmitInv"])
        jobs.append(dict(module="CountInputs", cfg=os.path.basename(cfg), cwd=d, label="inputs %s" % sc, workers=1))
    out = []
    for r in ctx.tlc_parallel(jobs):
        out += [p["C"] for t, p in r.prints if t == "CASE" and p["sc"]]
    return out


def run(ctx):
    ctx.rule = ("inputs: every strongly connected count matrix enumerated by TLC (Builders.tla Init) in scope, "
                "plus seeded random real-valued / strongly asymmetric matrices in the thorough tier; one trace = "
                "one matrix x both implementations (+ iteration-cap variants); non-trivial = asymmetric matrix")
    ctx.assumptions += ["log-likelihood numbers are computed by the projection (numpy log); the specification orders them",
                        "dominance is checked against the transpose estimate and <= 7 perturbed reversible competitors, "
                        "together with the exact stationarity certificate (self-consistency + detailed balance)",
                        "tolerances: 1e-4 relative on the Prinz equations, 2e-4 on detailed balance (32-bit budget)"]
    b = core.build_repo()
    core.activate(b)
    rng = np.random.RandomState(ctx.seed + 12)
    if ctx.tier == "quick":
        mats = enumerate_inputs(ctx, [dict(N=2, MaxC=3), dict(N=3, MaxC=1)])
        big = enumerate_inputs(ctx, [dict(N=3, MaxC=2)])
        mats += big[ctx.seed % 5::5]
    else:
        mats = enumerate_inputs(ctx, [dict(N=2, MaxC=4), dict(N=3, MaxC=2)])
    args = [(C, 1, 0) for C in mats]
    args += [(C, 1, cap) for C in mats[::7] for cap in (1, 2)]
    # caps in the hundreds (beyond any small-number special case of the cap test) on a matrix that needs ~3000 sweeps
    args += [(SLOW6, 1, cap) for cap in (300, 1000)]
    # real-valued (k/2) and strongly asymmetric counts
    extra = 300 if ctx.tier == "quick" else 4000
    for _ in range(extra):
        n = rng.randint(2, 6)
        kind = rng.randint(3)
        if kind == 0:
            C = rng.randint(0, 4, size=(n, n))
            cs = 1
        elif kind == 1:
            C = rng.randint(0, 7, size=(n, n))       # halves: C/2
            cs = 2
        else:
            C = rng.randint(0, 2, size=(n, n)) * rng.choice([1, 20], size=(n, n))
            cs = 1
        if np.any(C.sum(axis=1) == 0):
            continue
        from scipy.sparse.csgraph import connected_components
        if connected_components(C > 0, connection="strong")[0] != 1:
            continue        # input generation only; MLE.tla re-checks the precondition
        args.append((C.tolist(), cs, 0))
    traces = core.pmap(record, args, chunk=40)
    for tr in traces:
        C = np.array(tr["C"])
        ctx.case(str(tr["C"]) + str(tr["cap"]) if not np.array_equal(C, C.T) else None,
                 sample={"C": tr["C"], "events": [dict(e, T4=None, pi4=None) if e["ev"] == "return" else e
                                                  for e in tr["events"]][:3]} if len(C) == 3 else None)
    ctx.notes["outcomes"] = {}
    for tr in traces:
        for e in tr["events"]:
            if e["ev"] != "start":
                k = e["ev"] + ("/" + e["type"] if e["ev"] == "raise" else "")
                ctx.notes["outcomes"][k] = ctx.notes["outcomes"].get(k, 0) + 1
    results = []
    for i in range(0, len(traces), 4000):
        results += validate(ctx, traces[i:i + 4000], "trace validation batch %d" % (i // 4000))
    judge(ctx, results, "mle")
    # the public builder (dense and every sparse container, incl. a COO matrix with repeated coordinates)
    mle_container_part(ctx, side=False)
    ctx.exhaustive = False


# ---------------------------------------------------------------------------
# used by C04: the public builder in every container

def _builder_record(arg):
    Ci, cont, prior, flag = arg
    import scipy.sparse as sp
    from enspara.msm import builders
    Cint = np.array(Ci, dtype=np.int64)
    # element type of the caller's matrix: the estimate is invariant under a common factor on the counts, so for the
    # narrow integer types the counts are multiplied by a factor that keeps every count inside the type while sums
    # of two counts (2 C_ii, C_ij + C_ji, row sums) are not; the run is judged against the same integer matrix
    rot = int(Cint.sum()) + len(Ci) + len(cont) + (1 if flag else 0)
    dt, fac = (("int64", 1), ("int16", 9000), ("float64", 1), ("int32", 600000000), ("uint8", 60), ("float32", 1))[rot % 6]
    if int(Cint.max()) > 3 or prior is not None:
        dt, fac = ("int64", 1) if dt not in ("float64", "float32") else (dt, 1)
    if cont == "coodup":        # one entry of value 1 per count (what assigns_to_counts returns)
        from props.c04 import make
        M = make("coodup", Cint)
        dt, fac = "int64", 1
    else:
        Cs = (Cint * fac).astype(dt)
        M = Cs.copy() if cont == "ndarray" else getattr(sp, cont + "_matrix")(Cs)
    before = (M.toarray() if sp.issparse(M) else M).copy()
    btype = type(M)
    ev = [{"ev": "start", "impl": "builder:" + cont}]
    side = []
    pmat = prior == "ones"          # the prior 1 handed over as a matrix of ones instead of a scalar
    if pmat:
        prior = 1
    Weff = Cint + (prior or 0)
    try:
        with warnings.catch_warnings(record=True) as w:
            warnings.simplefilter("always")
            Cout, T, pi = builders.mle(M, prior_counts=(np.ones(Cint.shape) if pmat else prior), calculate_eq_probs=flag)
    except Exception as ex:
        ev.append({"ev": "raise", "type": type(ex).__name__, "msg": str(ex)[:200]})
        return {"n": len(Ci), "C": Weff.tolist(), "cs": 1, "cap": 0, "events": ev, "comp": [], "side": side,
                "cont": cont, "prior": prior, "flag": flag}
    dn = lambda x: np.asarray(x.toarray()) if sp.issparse(x) else np.asarray(x)
    allowed = {btype} if prior is None or cont == "ndarray" else {btype, np.ndarray}
    if type(T) not in allowed or type(Cout) not in allowed:
        side.append(("mle/container", "got %s/%s allowed %s" % (type(Cout).__name__, type(T).__name__,
                                                                [t.__name__ for t in allowed])))
    if type(M) is not btype or not np.array_equal(dn(M), before):
        side.append(("mle/caller-modified", dn(M).tolist()))
    if not np.allclose(np.asarray(dn(Cout), dtype=float), Weff.astype(float) * fac, rtol=1e-12):
        side.append(("mle/counts", dn(Cout).tolist()))
    if flag:
        pv = pi
    else:
        # populations are not returned; validate T with the stationary vector implied by detailed balance
        # of the returned matrix being unavailable -> use row sums of the symmetrised fixed point: skip pi clauses
        pv = None
    Td = dn(T).astype(float)
    if pv is None:
        if pi is not None:
            side.append(("mle/eq-not-suppressed", str(pi)))
        # recover pi from T by detailed balance along a spanning tree is not the projection's business:
        # only the T-clauses can be validated; feed the left Perron vector computed by numpy as pi
        vals, vecs = np.linalg.eig(Td.T)
        k = int(np.argmax(vals.real))
        pv = np.abs(vecs[:, k].real)
        pv = pv / pv.sum()
    s = _scaled(Td, pv)
    if s is None:
        ev.append({"ev": "raise", "type": "NonFinite", "msg": "nan/inf"})
    else:
        s.update(ev="return", ll4=_ll(Weff.astype(float), Td))
        ev.append(s)
    comp = []
    for X in competitors(Weff):
        rs = X.sum(axis=1)
        comp.append({"X": X.tolist(), "ll4": _ll(Weff.astype(float), X / rs[:, None])})
    return {"n": len(Ci), "C": Weff.tolist(), "cs": 1, "cap": 0, "events": ev, "comp": comp, "side": side,
            "cont": cont, "prior": prior, "flag": flag, "dtype": dt, "factor": fac}


def mle_container_part(ctx, side=True):
    """builders.mle, the public entry point, in every container.  side=True (C04): container type, caller's
    matrix, returned counts are judged too; side=False (C12): only the MLE.tla clauses."""
    conts = ["ndarray", "csr", "csc", "coo", "lil", "dok", "dia", "bsr", "coodup"]
    mats = enumerate_inputs(ctx, [dict(N=3, MaxC=2)])
    step = 40 if ctx.tier == "quick" else 8
    mats = mats[ctx.seed % step::step]
    args = [(C, cont, prior, flag) for C in mats for cont in conts for prior in (None, 1) for flag in (True, False)]
    args += [(C, cont, "ones", k % 2 == 0) for k, C in enumerate(mats) for cont in conts[(k % 3)::3]]
    recs = core.pmap(_builder_record, args, chunk=40)
    for r in recs:
        C = np.array(r["C"])
        ctx.case(("mle", str(r["C"]), r["cont"], r["prior"], r["flag"]) if not np.array_equal(C, C.T) else None)
        for key, detail in (r["side"] if side else []):
            ctx.violation({"kind": "replay", "builder": "mle", "container": r["cont"], "prior": r["prior"],
                           "calculate_eq_probs": r["flag"], "C": r["C"], "detail": detail}, key=key)
    results = validate(ctx, [dict({k: v for k, v in r.items() if k != "side"}, prior=r["prior"] or 0)
                             for r in recs], "mle builder traces")
    judge(ctx, results, "mle-builder")
