"""C10 -- nearest-center assignment and per-trajectory bookkeeping are exact.

Specs: specs/cluster/Assign.tla, Partition.tla (+ AssignDefs, PartitionDefs,
Trace_Assign, Trace_Partition), specs/common/Lattice.tla.

TLC (exhaustive, with coverage) checks the implementation-shaped models
(centre sweep under strict `<`, per-frame argmin branch, per-label argmin,
partition_list / partition_indices loops, square-vs-ragged choice,
compute_batches loop) against the definition-level clauses AssignExact,
CenterFinderMinimal, PairCorrect, PairSameFrame, PartitionRoundTrip,
SquareIffEqualLengths, BatchesCoverInOrder, BatchWithinSize.

Binding (A): TLC emits every input in scope with the definition-level
expectation (minimal distance and the set of allowed centres per frame; the
set of allowed members per label; the rows, container kind and (t, f) pairs);
the driver replays each into the real assign_to_nearest_center,
find_cluster_centers, partition_indices, partition_list and
ClusterResult.partition and compares projections.

Binding (B): outputs of KCenters(...).fit(X).predict(Y), of compute_batches,
of assignments on seeded random lattice data, of the file-based
reassign(topologies, trajectories, atoms, centers) (1-3 groups, every pattern
of same/different topology files and same/different atom selections) and of
batch_reassign on small generated mdtraj trajectories are recorded as
integers (for RMSD: together with a recorded md.rmsd distance table) and
judged by TLC (Trace_Assign.tla / Trace_Partition.tla) with the same clause
operators.  Python only projects, runs processes and keeps books.
"""
import json
import os

import numpy as np

from harness import core

SPEC_DIR = os.path.join(core.SPECS, "cluster")

INV_A = ["TypeOK", "SweepPrefix", "FramePrefix", "AssignExact", "ModelPicksFirst",
         "CenterFinderMinimal", "CenterPrefix"]
INV_F = ["TypeOK", "CenterFinderMinimal", "CenterPrefix"]
INV_P = ["TypeOK", "NoError", "PairUnique", "PILoopInv", "InnerLoopBreaks", "PairCorrect", "PairSameFrame",
         "PLPrefix", "PartitionRoundTrip", "SquareIffEqualLengths"]
INV_B = ["TypeOK", "BatchPrefix", "BatchesCoverInOrder", "BatchWithinSize", "NoEmptyBatch"]
ACT_A = ["Start", "SweepCenter", "FrameStep", "AssignReturn", "CentersStart", "CenterStep", "CentersReturn"]
ACT_F = ["CentersStart", "CenterStep", "CentersReturn"]
ACT_P = ["SquareTest", "PLCheck", "PLStep", "PLReturn", "MakeRagged", "PINext", "PIInner", "PIReturn"]
ACT_B = ["BStep", "BReturn"]

METRICS = ["l1", "l2sq", "linf"]

# shapes are n*100+k (n frames, k centres): fewer, as many and more centres than frames
SCOPES = {
    "quick": dict(
        assign=[dict(name="line0..5", Dim=1, P=5, Shapes=[101, 102, 103, 201, 202, 203, 301, 302]),
                dict(name="grid3x3", Dim=2, P=2, Shapes=[101, 102, 103, 201, 202])],
        cf=dict(LabelN=3, FullN=4, BinN=5, MaxFN=8),
        part=dict(MaxT=4, MaxTotal=8, LabelN=3, FullTotal=5),
        pred_every=12, dtypes_int=["int64"]),
    "thorough": dict(
        assign=[dict(name="line0..5", Dim=1, P=5, Shapes=[104, 303, 401, 402]),
                dict(name="line0..7", Dim=1, P=7, Shapes=[103, 202, 203]),
                dict(name="grid3x3", Dim=2, P=2, Shapes=[203, 301]),
                dict(name="grid4x4", Dim=2, P=3, Shapes=[101, 102, 201])],
        cf=dict(LabelN=3, FullN=5, BinN=6, MaxFN=9),
        part=dict(MaxT=4, MaxTotal=9, LabelN=3, FullTotal=7),
        pred_every=16, dtypes_int=["int64", "int32", "int16"]),
}

PROCS = 8          # replay workers: the per-case work is tiny, more forks only add overhead on a shared machine
JAVA_OPTS = ("-XX:ParallelGCThreads=2", "-Xmx3g", "-XX:TieredStopAtLevel=4")

KEY_EMPTY_BATCH = "compute_batches/first-length>=batch_size/empty-leading-batch"


# ---------------------------------------------------------------------------
# implementation-side helpers (projection only)

class Xyz(np.ndarray):
    """A centre container that 'carries xyz' (what the code tests with hasattr)."""
    @property
    def xyz(self):
        return np.asarray(self)


def linf(X, y):
    """Pure-Python callable metric (Chebyshev)."""
    return np.abs(np.asarray(X, dtype=float) - np.asarray(y, dtype=float)).max(axis=1)


def _metric_fn(m):
    from enspara.geometry import libdist
    return {"l1": libdist.manhattan, "l2sq": libdist.euclidean, "linf": linf}[m]


def _kc_metric(m, j):
    return {"l1": ["manhattan", "cityblock"], "l2sq": ["euclidean"], "linf": [linf]}[m][j % (2 if m == "l1" else 1)]


def _dtypes(m, ints):
    return ["float64", "float32"] + list(ints) if m != "linf" else ["float64", ints[0]]


def proj_dist(m, d):
    """reported distances -> integers (squared for l2sq); exact flag per DESIGN section 3"""
    d = np.asarray(d, dtype=float).ravel()
    if not np.all(np.isfinite(d)):
        return [-1] * len(d), False
    v = d * d if m == "l2sq" else d
    r = np.rint(v)
    ok = bool(np.all(np.abs(v - r) <= 1e-9 * np.maximum(1.0, np.abs(v))))
    return [int(x) for x in r], ok


def proj_points(P):
    a = np.asarray([np.asarray(p, dtype=float).ravel() for p in P], dtype=float)
    r = np.rint(a)
    return r.astype(int).tolist(), bool(np.all(np.abs(a - r) <= 1e-9))


def _ints(x):
    return [int(v) for v in np.asarray(x).ravel()]


# ---------------------------------------------------------------------------
# (A) assign_to_nearest_center

class _Sited:
    """appends (site, form, what, detail)"""
    def __init__(self, lst, site):
        self.lst, self.site = lst, site

    def append(self, t):
        self.lst.append((self.site,) + tuple(t))


def _judge_assign(form, a, d, c, bad, site="assign_to_nearest_center"):
    bad = _Sited(bad, site)
    n = len(c["X"])
    a = np.asarray(a)
    if a.shape != (n,) or np.asarray(d).shape != (n,) or not np.issubdtype(a.dtype, np.integer):
        bad.append((form, "shape", {"assignments": repr(a), "distances": repr(d)}))
        return
    pd, exact = proj_dist(c["metric"], d)
    if not exact:
        bad.append((form, "distance-not-on-lattice", {"distances": np.asarray(d).tolist()}))
    elif pd != c["mind"]:
        bad.append((form, "distance", {"got": pd, "expected": c["mind"]}))
    al = c["allowed"]
    if any(int(a[i]) not in al[i] for i in range(n)):
        bad.append((form, "assignment", {"got": _ints(a), "allowed": al}))


def replay_assign(c):
    from enspara.cluster import util
    m = c["metric"]
    fn = _metric_fn(m)
    bad_all, recs = [], []
    bad = _Sited(bad_all, "assign_to_nearest_center")
    forms = []
    for dt in _dtypes(m, c["_ints"]):
        conts = ["xyz"] if c["xyz"] else (["list", "ndarray"] if dt == "float64" else ["list"])
        forms += [(dt, cont) for cont in conts]
    if not c.get("_allforms"):
        # quick tier (shared machine, CPU budget): one dtype/container form per case, in rotation --
        # every form still meets tens of thousands of cases of every scope
        forms = [forms[c.get("_rot", 0) % len(forms)]]
    for dt, cont in forms:
        X = np.array(c["X"], dtype=dt)
        C2 = np.array(c["C"], dtype=dt)
        form = "%s/%s/%s" % (m, dt, cont)
        Xc = X.copy()
        if cont == "xyz":
            Cc = C2.copy().view(Xyz)
        elif cont == "list":
            Cc = [r.copy() for r in C2]
        else:
            Cc = C2.copy()
        try:
            a, d = util.assign_to_nearest_center(Xc, Cc, fn)
        except Exception as ex:      # the property admits no error on these inputs
            bad.append((form, "raised", "%s: %s" % (type(ex).__name__, ex)))
            continue
        _judge_assign(form, a, d, c, bad_all)
        if not np.array_equal(Xc, X) or not np.array_equal(np.asarray(Cc), C2):
            bad.append((form, "input-modified", {"X": Xc.tolist(), "C": np.asarray(Cc).tolist()}))
    if c.get("_pred"):
        recs.append(predict_record(m, c["C"] + c["X"][::-1], len(c["C"]), c["X"], c["_pred"], c["_ints"]))
        predict_init_centers(c, c["_pred"], bad_all)
    return {"bad": bad_all, "recs": recs}


def predict_init_centers(c, j, bad_all):
    """(A) for predict: KCenters(metric, n_clusters=1).fit(X, init_centers=C) keeps exactly the given
    centres (no k-centers iteration is needed), so both the fit's own assignment of X and
    .predict(X) must meet the emitted expectation for (X, C)."""
    from enspara.cluster.kcenters import KCenters
    m = c["metric"]
    dts = _dtypes(m, c["_ints"])
    dt = dts[j % len(dts)]
    form = "%s/%s" % (m, dt)
    X = np.array(c["X"], dtype=dt)
    C2 = np.array(c["C"], dtype=dt)
    try:
        est = KCenters(_kc_metric(m, j), n_clusters=1).fit(X.copy(), init_centers=[r.copy() for r in C2])
        fitted, _ = proj_points(est.centers_)
        if fitted != c["C"]:
            _Sited(bad_all, "KCenters.fit(init_centers)").append((form, "centers-changed", {"got": fitted}))
            return
        _judge_assign(form, est.labels_, est.distances_, c, bad_all, site="KCenters.fit(init_centers)")
        Y = X.copy()
        pred = est.predict(Y)
        _judge_assign(form, pred.assignments, pred.distances, c, bad_all, site="KCenters.fit(init_centers).predict")
        after, _ = proj_points(pred.centers)
        if after != c["C"] or not np.array_equal(Y, X):
            _Sited(bad_all, "KCenters.fit(init_centers).predict").append((form, "input-modified", None))
    except Exception as ex:
        _Sited(bad_all, "KCenters.fit(init_centers).predict").append((form, "raised", "%s: %s" % (type(ex).__name__, ex)))


# ---------------------------------------------------------------------------
# (B) KCenters(metric, n_clusters=k).fit(train).predict(Y) -> trace record

def lattice_record(m, Y, centers, fitted, a, d, cidx, gen):
    C, okc = proj_points(centers)
    F, okf = proj_points(fitted)
    pd, okd = proj_dist(m, d)
    rec = {"kind": "lattice", "metric": m, "Y": [list(map(int, y)) for y in Y], "C": C, "fitted": F,
           "asg": _ints(a), "d": pd, "dexact": bool(okc and okf and okd),
           "hascidx": cidx is not None, "cidx": _ints(cidx) if cidx is not None else [],
           "lengths": [], "rowlens": [], "tab": [], "tol": 0, "_gen": gen}
    return rec


def predict_record(m, train, k, Y, j, ints):
    """every fourth linf record fits and predicts in different types (the callable metric takes any pair): an integer
    model asked about frames on the half-integer lattice (recorded in units of 1/2: the metric is homogeneous), and a
    uint8 model asked about int64 frames shifted below zero and beyond 255"""
    from enspara.cluster.kcenters import KCenters
    dts = _dtypes(m, ints)
    dt = dts[j % len(dts)]
    ydt, unit, shift = dt, 1, 0
    sel = (j ^ (j >> 3) ^ (j >> 7) ^ (j >> 11)) % 8     # j may be a multiple of anything
    if m == "linf" and sel in (1, 5):
        dt, ydt, unit = ints[0], "float64", 2
    elif m == "linf" and sel in (3, 7) and train and 0 <= min(map(min, train)) and max(map(max, train)) <= 255:
        dt, ydt, shift = "uint8", "int64", (-3 if sel == 3 else 250)
    gen = {"call": "KCenters.fit.predict", "metric": m, "train": train, "k": k, "Y": Y, "dtype": dt, "j": j,
           "ints": list(ints), "predict_dtype": ydt, "unit": "1/%d" % unit, "shift": shift}
    try:
        est = KCenters(_kc_metric(m, j), n_clusters=k).fit(np.array(train, dtype=dt))
        fitted = [np.array(x).copy() for x in est.centers_]
        Yarr = (np.array(Y, dtype="int64") + shift).astype(ydt) / unit if unit != 1 else \
            (np.array(Y, dtype="int64") + shift).astype(ydt)
        Y0 = Yarr.copy()
        pred = est.predict(Yarr)
        rec = lattice_record(m, (Y0 * unit).tolist(), [np.asarray(x, dtype=float) * unit for x in pred.centers],
                             [np.asarray(x, dtype=float) * unit for x in fitted], pred.assignments,
                             np.asarray(pred.distances, dtype=float) * unit, pred.center_indices, gen)
        after, _ = proj_points([np.asarray(x, dtype=float) * unit for x in est.centers_])
        if not np.array_equal(Yarr, Y0) or after != rec["fitted"]:
            rec["_modified"] = True
        return rec
    except Exception as ex:
        return {"_raised": "%s: %s" % (type(ex).__name__, ex), "_gen": gen, "metric": m}


# ---------------------------------------------------------------------------
# (A) find_cluster_centers

def replay_cf(c):
    from enspara.cluster import util
    bad = []
    for ldt, ddt in (("int64", "float64"), ("int32", "float32"), ("int64", "int64")):
        form = "%s/%s" % (ldt, ddt)
        L = np.array(c["labels"], dtype=ldt)
        Dv = np.array(c["dists"], dtype=ddt)
        L0, D0 = L.copy(), Dv.copy()
        try:
            got = util.find_cluster_centers(L, Dv)
        except Exception as ex:
            bad.append((form, "raised", "%s: %s" % (type(ex).__name__, ex)))
            continue
        g = _ints(got)
        if len(g) != len(c["uniq"]) or any(g[j] not in c["allowed"][j] for j in range(len(g))):
            bad.append((form, "center", {"got": g, "allowed": c["allowed"], "labels_present": c["uniq"]}))
        if not np.array_equal(L, L0) or not np.array_equal(Dv, D0):
            bad.append((form, "input-modified", None))
    return bad


# ---------------------------------------------------------------------------
# (A) partition_indices / partition_list / ClusterResult.partition

def _rows_of(x):
    from enspara import ra
    if isinstance(x, ra.RaggedArray):
        return "ragged", [np.asarray(x[i]).tolist() for i in range(len(x))], np.asarray(x.flatten()).tolist()
    if isinstance(x, np.ndarray) and x.ndim == 2 and x.dtype != object:
        return "ndarray", x.tolist(), x.reshape(-1).tolist()
    return type(x).__name__, None, None


def replay_part(c):
    from enspara import ra
    from enspara.cluster import util
    bad = []
    lengths, flat, dflat, idxs = c["lengths"], c["flat"], c["dflat"], c["idxs"]
    pairs = [tuple(p) for p in c["pairs"]]

    def attempt(form, f):
        try:
            return f()
        except Exception as ex:
            bad.append((form, "raised", "%s: %s" % (type(ex).__name__, ex)))
            return None

    for lform, L in (("list", list(lengths)), ("array", np.array(lengths))):
        L0 = np.array(L).copy()
        for iform, I in (("list", list(idxs)), ("int64", np.array(idxs, dtype=np.int64))):
            form = "partition_indices/%s/%s" % (lform, iform)
            I0 = np.array(I).copy()
            got = attempt(form, lambda: ra.partition_indices(I, L))
            if got is not None:
                g = [(int(t), int(f)) for t, f in got]
                if g != pairs:
                    bad.append((form, "pair", {"got": g, "expected": pairs}))
            if not np.array_equal(np.array(I), I0):
                bad.append((form, "input-modified", None))
        for fform, F in (("array", np.array(flat)), ("list", list(flat))):
            form = "partition_list/%s/%s" % (lform, fform)
            got = attempt(form, lambda: ra.partition_list(F, L))
            if got is not None:
                g = [np.asarray(r).tolist() for r in got]
                if g != c["rowsA"]:
                    bad.append((form, "rows", {"got": g, "expected": c["rowsA"]}))
        # ClusterResult.partition
        form = "ClusterResult.partition/%s" % lform
        A = np.array(flat, dtype=np.int64)
        Dv = np.array(dflat, dtype=np.float64)
        cent = ["centers-object"]
        cr = util.ClusterResult(center_indices=list(idxs), assignments=A, distances=Dv, centers=cent)
        p = attempt(form, lambda: cr.partition(L))
        if p is not None:
            want = "ndarray" if c["square"] else "ragged"
            for name, x, rows, fl in (("assignments", p.assignments, c["rowsA"], flat),
                                      ("distances", p.distances, c["rowsD"], dflat)):
                kind, got_rows, got_flat = _rows_of(x)
                if kind != want:
                    bad.append((form, "container", {"field": name, "got": kind, "expected": want}))
                elif got_rows != rows:
                    bad.append((form, "rows", {"field": name, "got": got_rows, "expected": rows}))
                elif got_flat != list(fl):
                    bad.append((form, "roundtrip", {"field": name, "got": got_flat, "expected": list(fl)}))
            try:
                g = [(int(t), int(f)) for t, f in p.center_indices]
            except Exception:
                g = repr(p.center_indices)
            if g != pairs:
                bad.append((form, "pair", {"got": g, "expected": pairs}))
            if p.centers is not cent:
                bad.append((form, "centers-not-passed-through", None))
            if A.tolist() != list(flat) or Dv.tolist() != [float(v) for v in dflat] \
                    or list(cr.center_indices) != list(idxs):
                bad.append((form, "input-modified", None))
        if not np.array_equal(np.array(L), L0):
            bad.append((form, "lengths-modified", None))
    return bad


# ---------------------------------------------------------------------------
# (B) compute_batches -> trace record

def batch_record(c):
    from enspara.cluster import util
    gen = {"call": "compute_batches", "lengths": c["lengths"], "bsize": c["bsize"]}
    try:
        b = util.compute_batches(list(c["lengths"]), c["bsize"])
        return {"lengths": c["lengths"], "bsize": c["bsize"], "batches": [[int(v) for v in x] for x in b],
                "_gen": gen}
    except Exception as ex:
        return {"_raised": "%s: %s" % (type(ex).__name__, ex), "_gen": gen}


# ---------------------------------------------------------------------------
# thorough: seeded random lattice data sets (B)

def random_record(args):
    """One seeded random data set through the real assign_to_nearest_center and
    find_cluster_centers (and every third one through KCenters.fit.predict)."""
    from enspara.cluster import util
    seed, j = args
    rng = np.random.RandomState((seed * 1000003 + j) % (2 ** 31 - 1))
    dim = int(rng.choice([1, 2, 3]))
    hi = int(rng.choice([2, 5, 20]))
    small = rng.rand() < 0.4
    N = int(rng.randint(1, 7)) if small else int(rng.randint(7, 41))
    K = int(rng.randint(1, 17))
    X = rng.randint(0, hi + 1, size=(N, dim))
    if rng.rand() < 0.5:                        # centres drawn from the frames: zero distances, ties
        C = X[rng.randint(0, N, size=K)]
    else:
        C = rng.randint(0, hi + 1, size=(K, dim))
    m = METRICS[j % 3]
    dts = _dtypes(m, ["int64", "int32", "int16", "int8"])
    dt = dts[int(rng.randint(len(dts)))]
    xyz = bool(K > N and rng.rand() < 0.8)
    gen = {"call": "assign_to_nearest_center+find_cluster_centers", "seed": seed, "j": j, "metric": m,
           "dtype": dt, "xyz": xyz, "X": X.tolist(), "C": C.tolist()}
    recs = []
    try:
        Xa = X.astype(dt)
        Ca = C.astype(dt).view(Xyz) if xyz else [r.copy() for r in C.astype(dt)]
        a, d = util.assign_to_nearest_center(Xa, Ca, _metric_fn(m))
        ci = util.find_cluster_centers(a, d)
        rec = lattice_record(m, X.tolist(), C.tolist(), C.tolist(), a, d, ci, gen)
        if not np.array_equal(Xa, X) or not np.array_equal(np.asarray(Ca), C):
            rec["_modified"] = True
        recs.append(rec)
    except Exception as ex:
        recs.append({"_raised": "%s: %s" % (type(ex).__name__, ex), "_gen": gen, "metric": m})
    if j % 3 == 0 and N >= 2:
        k = int(rng.randint(1, min(N, 6) + 1))
        Y = rng.randint(0, hi + 1, size=(int(rng.randint(1, 13)), dim))
        recs.append(predict_record(m, X.tolist(), k, Y.tolist(), j, ["int64", "int32"]))
    return recs


def far_record(args):
    """frames near the origin, centers 2^24 away and a unit or two apart: every distance is ~1.7e7 and the gaps
    between competing centers are of relative size 6e-8 -- far below single-precision resolution, exactly representable
    in the 64-bit (and int32) types used; the farther of two nearly tied centers is listed first half of the time"""
    from enspara.cluster import util
    seed, j = args
    rng = np.random.RandomState((seed * 7919 + j) % (2 ** 31 - 1))
    dim = int(rng.choice([1, 2]))
    N, K = int(rng.randint(1, 9)), int(rng.randint(2, 7))
    M = 2 ** 24
    X = rng.randint(0, 4, size=(N, dim))
    C = rng.randint(0, 4, size=(K, dim))
    C[:, 0] += M
    if j % 2 == 0:                              # descending first coordinate: farther centers first
        C = C[np.argsort(-C[:, 0], kind="stable")]
    m = ("l1", "linf")[j % 2]
    dt = ("float64", "int64", "int32")[j % 3] if m == "l1" else ("float64", "int64")[j % 2]
    xyz = bool(K > N and j % 4 == 1)
    gen = {"call": "assign_to_nearest_center (far centers)", "seed": seed, "j": j, "metric": m, "dtype": dt, "xyz": xyz,
           "X": X.tolist(), "C": C.tolist()}
    try:
        Xa = X.astype(dt)
        Ca = C.astype(dt).view(Xyz) if xyz else [r.copy() for r in C.astype(dt)]
        a, d = util.assign_to_nearest_center(Xa, Ca, _metric_fn(m))
        rec = lattice_record(m, X.tolist(), C.tolist(), C.tolist(), a, d, None, gen)
        if not np.array_equal(Xa, X) or not np.array_equal(np.asarray(Ca), C):
            rec["_modified"] = True
        return [rec]
    except Exception as ex:
        return [{"_raised": "%s: %s" % (type(ex).__name__, ex), "_gen": gen, "metric": m}]


# ---------------------------------------------------------------------------
# thorough: batch reassignment of tiny mdtraj trajectories (B, recorded distance table)

MD_LENGTHS = [[3, 1, 2, 2], [1, 1, 1], [4], [2, 2, 2], [1, 5, 1, 1], [3, 3], [2, 1, 4], [5, 2],
              [1, 1, 1, 1], [6, 1], [2, 3, 1, 2], [1, 2]]
MD_SCALE = 100000      # nm -> integer
MD_TOL = 100           # 1e-3 nm: float32 QCP RMSD noise near zero; real errors are >= 0.1 nm


MD_QUICK = (0, 4, 6)    # scenarios of MD_LENGTHS replayed in the quick tier


def mdtraj_records(seed, wd, only=None, scenarios=None):
    """Runs in the main process (batch_reassign starts its own pools).
    only: a scenario number (replay); scenarios: restrict to these scenario numbers (quick tier)."""
    import warnings
    import mdtraj as md
    from enspara.cluster import util
    recs = []
    top = md.Topology()
    res = top.add_residue("ALA", top.add_chain())
    for i in range(5):
        top.add_atom("C%d" % i, md.element.carbon, res)
    real_dbs = util.determine_batch_size
    try:
        for s, lengths in enumerate(MD_LENGTHS):
            if (only is not None and s != only) or (scenarios is not None and s not in scenarios):
                continue
            rng = np.random.RandomState((seed * 1009 + 77 + s) % (2 ** 31 - 1))
            sd = os.path.join(wd, "s%d" % s)
            os.makedirs(sd)
            files = []
            for t, l in enumerate(lengths):
                f = os.path.join(sd, "t%d.xtc" % t)
                md.Trajectory(rng.rand(l, 5, 3).astype(np.float32), top).save(f)
                files.append(f)
            topf = os.path.join(sd, "top.pdb")
            md.Trajectory(rng.rand(1, 5, 3).astype(np.float32), top).save(topf)
            t_top = md.load(topf).top
            allt = md.load(files, top=t_top)
            total = sum(lengths)
            K = 2 + s % 3
            cpos = [int(v) for v in rng.randint(0, total, size=K)]
            with warnings.catch_warnings():
                warnings.simplefilter("ignore")
                tab = np.array([md.rmsd(allt, allt[p]) for p in cpos]).T
            itab = np.rint(tab * MD_SCALE).astype(int).tolist()
            targets = [(f, t_top, np.arange(5)) for f in files]
            sizes = sorted({b for b in (max(lengths), max(lengths) + 1, lengths[0], total // 2 + 1, total,
                                        total + 1, 1000) if b >= max(lengths)})
            for bsz in sizes:
                gen = {"call": "batch_reassign", "lengths": lengths, "batch_size": bsz, "centers_at": cpos,
                       "seed": seed, "scenario": s,
                       "batches": util.compute_batches(lengths, bsz)}
                util.determine_batch_size = lambda n_atoms, dtype_bytes, frac_mem, _b=bsz: (_b, 0.0)
                centers = [allt[p] for p in cpos]
                try:
                    with warnings.catch_warnings():
                        warnings.simplefilter("ignore")
                        a, d = util.batch_reassign(targets, centers, lengths, frac_mem=0.5, n_procs=1)
                except Exception as ex:
                    recs.append({"_raised": "%s: %s" % (type(ex).__name__, ex), "_gen": gen,
                                 "_empty_leading": lengths[0] >= bsz})
                    continue
                la, ld = [len(x) for x in a], [len(x) for x in d]
                dd = np.concatenate([np.asarray(x, dtype=float) for x in d]) if ld else np.zeros(0)
                recs.append({"kind": "table", "metric": "table", "Y": [], "C": [], "fitted": [],
                             "tab": itab, "tol": MD_TOL,
                             "asg": _ints(np.concatenate([np.asarray(x) for x in a])) if la else [],
                             "d": [int(v) for v in np.rint(dd * MD_SCALE)] if np.all(np.isfinite(dd)) else [-1] * len(dd),
                             "dexact": bool(np.all(np.isfinite(dd))), "hascidx": False, "cidx": [],
                             "lengths": lengths, "rowlens": la if la == ld else [-1], "_gen": gen})
            # direct calls with md.Trajectory containers: sweep and (centres > frames) per-frame branch
            cen = allt[[int(v) for v in rng.randint(0, total, size=total + 2)]]
            few = allt[:max(1, total // 2)]
            for name, fr, ce in (("perframe", few, cen), ("sweep", allt, allt[cpos])):
                gen = {"call": "assign_to_nearest_center(md.Trajectory, md.Trajectory, md.rmsd)", "branch": name,
                       "seed": seed, "scenario": s, "lengths": lengths}
                with warnings.catch_warnings():
                    warnings.simplefilter("ignore")
                    t2 = np.array([md.rmsd(fr, ce[k]) for k in range(len(ce))]).T
                    try:
                        a, d = util.assign_to_nearest_center(fr, ce, md.rmsd)
                    except Exception as ex:
                        recs.append({"_raised": "%s: %s" % (type(ex).__name__, ex), "_gen": gen})
                        continue
                recs.append({"kind": "table", "metric": "table", "Y": [], "C": [], "fitted": [],
                             "tab": np.rint(t2 * MD_SCALE).astype(int).tolist(), "tol": MD_TOL,
                             "asg": _ints(a), "d": [int(v) for v in np.rint(np.asarray(d, dtype=float) * MD_SCALE)],
                             "dexact": bool(np.all(np.isfinite(d))), "hascidx": False, "cidx": [],
                             "lengths": [], "rowlens": [], "_gen": gen})
    finally:
        util.determine_batch_size = real_dbs
    return recs


# ---------------------------------------------------------------------------
# file-based batch reassignment: util.reassign(topologies, trajectories, atoms, centers) (B, recorded table)
#
# One GROUP = (topology file, list of trajectory files, atom selection string).  The definition the recorded
# table follows: the distance of a frame to a centre is the RMSD (md.rmsd) between the frame restricted to the
# atoms selected for ITS group (in topology order) and the centre; centres carry exactly RS_M atoms, the i-th
# of which is matched with the i-th selected atom.  Every selection below denotes RS_M atoms in every molecule,
# so one centre list fits every group.

RS_M = 4
_BB = ["N", "CA", "C", "O"]
# molecule -> residues (name, atom names); topology file name -> molecule ("A2" is the same molecule in a 2nd file)
RS_MOLS = {"A": [("ALA", _BB), ("GLY", _BB), ("SER", _BB)],
           "B": [("ACE", ["CH3", "C"]), ("ALA", _BB), ("GLY", _BB), ("NME", ["N"])]}
RS_TOPS = {"A": "A", "A2": "A", "B": "B"}
# selection string -> the atom indices it denotes in each molecule (written out by hand; compared with
# Topology.select when the files are made: a disagreement is a harness problem, not a verdict)
RS_SELS = {"resid 1": {"A": [4, 5, 6, 7], "B": [2, 3, 4, 5]},
           "resid 2": {"A": [8, 9, 10, 11], "B": [6, 7, 8, 9]},
           "index 1 to 4": {"A": [1, 2, 3, 4], "B": [1, 2, 3, 4]},
           "(name N or name O) and (resid 1 or resid 2)": {"A": [4, 7, 8, 11], "B": [2, 5, 6, 9]}}
RS_LENGTHS = [[3, 1, 2], [1], [2, 2], [4, 1], [1, 1, 1], [5], [2, 3], [1, 2], [6, 1]]
# which selections coincide over the groups (restricted growth strings: every set partition of the groups)
RS_PATTERNS = {1: [(0,)], 2: [(0, 0), (0, 1)], 3: [(0, 0, 0), (0, 0, 1), (0, 1, 0), (0, 1, 1), (0, 1, 2)]}


def _rs_scenarios():
    """Every assignment of topology files to 1, 2 and 3 groups x every pattern of equal / different selections
    (1 group: every selection).  The remaining choices (which selections, trajectory lengths, container of the
    centres, number of centres, forced batch size) come from a fixed pseudo-random stream: the list does not
    depend on VERIF_SEED (only the coordinates do)."""
    import itertools
    srng = np.random.RandomState(20240928)
    sels = list(RS_SELS)
    out = []
    for ng in (1, 2, 3):
        for tops in itertools.product(sorted(RS_TOPS), repeat=ng):
            for pat in RS_PATTERNS[ng]:
                for rot in (range(len(sels)) if ng == 1 else (None,)):
                    perm = [int(v) for v in srng.permutation(len(sels))]
                    if rot is not None:
                        perm = perm[rot:] + perm[:rot]
                    if srng.rand() < 0.2:        # all trajectories of one length: rectangular result
                        l = int(srng.randint(1, 4))
                        lengths = [[l] * int(srng.randint(1, 3)) for _ in range(ng)]
                    else:
                        lengths = [list(RS_LENGTHS[int(srng.randint(len(RS_LENGTHS)))]) for _ in range(ng)]
                    total = sum(sum(x) for x in lengths)
                    longest = max(max(x) for x in lengths)
                    K = [1, 2, 3, 5, longest + 1, total + 2][int(srng.randint(6))]
                    # batch size: the real determine_batch_size (one batch), or forced small ones (several batches)
                    bsz = [None, None, longest + 1, max(longest + 1, total // 2 + 1), total + 1][int(srng.randint(5))]
                    out.append({"scenario": len(out), "tops": list(tops), "sels": [sels[perm[p]] for p in pat],
                                "lengths": lengths, "cform": ["trj", "list"][int(srng.randint(2))], "K": int(K),
                                "batch_size": bsz, "nprocs": 1})
    return out


RS_SCENARIOS = _rs_scenarios()


def _rs_quick(sc):
    """quick tier: all 1- and 2-group scenarios; 3 groups over the files A and B (every selection pattern) and
    every third of the rest"""
    return len(sc["tops"]) < 3 or "A2" not in sc["tops"] or sc["scenario"] % 3 == 0


def _rs_topology(mol):
    import mdtraj as md
    top = md.Topology()
    ch = top.add_chain()
    for rname, atoms in RS_MOLS[mol]:
        res = top.add_residue(rname, ch)
        for a in atoms:
            top.add_atom(a, {"N": md.element.nitrogen, "O": md.element.oxygen}.get(a, md.element.carbon), res)
    return top


def _rs_pieces(x):
    return [np.asarray(x[i]).ravel() for i in range(len(x))]


def _stop_loky():
    """joblib's reusable worker pool (started by reassign when it runs with more than one process) would keep
    the forked recorder process alive at exit until the workers' idle timeout (300 s)."""
    try:
        from joblib.externals.loky import reusable_executor as rx
        ex = getattr(rx, "_executor", None)
        if ex is not None:
            ex.shutdown(wait=True, kill_workers=True)
    except Exception:
        pass


def reassign_records(seed, wd, select=None, only=None, nprocs=None):
    """Runs in the main process (reassign starts its own pools).  select: predicate on scenarios;
    only: a scenario number (replay); nprocs: override the number of loader processes."""
    import warnings
    import mdtraj as md
    from enspara.cluster import util
    recs = []
    topfile, topobj = {}, {}
    for name, mol in sorted(RS_TOPS.items()):
        top = _rs_topology(mol)
        topfile[name] = os.path.join(wd, "top%s.pdb" % name)
        with warnings.catch_warnings():
            warnings.simplefilter("ignore")
            md.Trajectory(np.random.RandomState(7).rand(1, top.n_atoms, 3).astype(np.float32), top).save(topfile[name])
            topobj[name] = md.load(topfile[name]).top
        for sel, ids in RS_SELS.items():
            if [int(v) for v in topobj[name].select(sel)] != ids[mol] or len(ids[mol]) != RS_M:
                raise core.MachineryError("selection %r on %s: expected atoms %s, mdtraj selects %s"
                                          % (sel, name, ids[mol], topobj[name].select(sel)))
    ctop = md.Topology()
    cres = ctop.add_residue("CEN", ctop.add_chain())
    for i in range(RS_M):
        ctop.add_atom("C%d" % i, md.element.carbon, cres)
    real_dbs, real_omp = util.determine_batch_size, os.environ.get("OMP_NUM_THREADS")
    try:
        for sc in RS_SCENARIOS:
            s = sc["scenario"]
            if (only is not None and s != only) or (select is not None and not select(sc)):
                continue
            rng = np.random.RandomState((seed * 2003 + 411 + s) % (2 ** 31 - 1))
            sd = os.path.join(wd, "r%d_%d" % (s, len(recs)))
            os.makedirs(sd)
            trjfiles, frames, flat_lengths = [], [], []
            with warnings.catch_warnings():
                warnings.simplefilter("ignore")
                for g, (tname, sel, lens) in enumerate(zip(sc["tops"], sc["sels"], sc["lengths"])):
                    top = topobj[tname]
                    ids = RS_SELS[sel][RS_TOPS[tname]]
                    trjfiles.append([])
                    for t, l in enumerate(lens):
                        f = os.path.join(sd, "g%d_t%d.xtc" % (g, t))
                        md.Trajectory(rng.rand(l, top.n_atoms, 3).astype(np.float32), top).save(f)
                        trjfiles[-1].append(f)
                        # what is on disk (xtc is lossy), restricted to this group's atoms
                        frames.append(md.load(f, top=top).xyz[:, ids, :].copy())
                        flat_lengths.append(l)
                X = np.concatenate(frames)
                cxyz = np.array([X[int(rng.randint(len(X)))] if rng.rand() < 0.6 else rng.rand(RS_M, 3)
                                 for _ in range(sc["K"])], dtype=np.float32)
                ref = md.Trajectory(cxyz.copy(), ctop)
                tab = np.array([md.rmsd(md.Trajectory(X.copy(), ctop), ref, k) for k in range(sc["K"])]).T
            itab = np.rint(tab * MD_SCALE).astype(int).tolist()
            # reassign centres its centres in place: hand it fresh copies
            if sc["cform"] == "trj":
                centers = md.Trajectory(cxyz.copy(), ctop)
            else:
                centers = [md.Trajectory(cxyz[k:k + 1].copy(), ctop) for k in range(sc["K"])]
            np_ = int(nprocs if nprocs is not None else sc["nprocs"])
            gen = dict(sc, call="reassign", seed=seed, nprocs=np_)
            bsz = sc["batch_size"]
            util.determine_batch_size = real_dbs if bsz is None else \
                (lambda n_atoms, dtype_bytes, frac_mem, _b=bsz: (_b, 0.0))
            os.environ["OMP_NUM_THREADS"] = str(np_)      # reassign takes its process count from auto_nprocs()
            try:
                with warnings.catch_warnings():
                    warnings.simplefilter("ignore")
                    a, d = util.reassign([topfile[t] for t in sc["tops"]], trjfiles, list(sc["sels"]), centers)
                a, d = _rs_pieces(a), _rs_pieces(d)
            except Exception as ex:
                recs.append({"_raised": "%s: %s" % (type(ex).__name__, ex), "_gen": gen, "metric": "table"})
                continue
            la, ld = [len(x) for x in a], [len(x) for x in d]
            dd = np.concatenate([np.asarray(x, dtype=float) for x in d]) if ld else np.zeros(0)
            fin = bool(np.all(np.isfinite(dd)))
            recs.append({"kind": "table", "metric": "table", "Y": [], "C": [], "fitted": [],
                         "tab": itab, "tol": MD_TOL,
                         "asg": _ints(np.concatenate(a)) if la else [],
                         "d": [int(v) for v in np.rint(dd * MD_SCALE)] if fin else [-1] * len(dd),
                         "dexact": fin, "hascidx": False, "cidx": [],
                         "lengths": flat_lengths, "rowlens": la if la == ld else [-1], "_gen": gen})
    finally:
        util.determine_batch_size = real_dbs
        if nprocs is not None and nprocs > 1:
            _stop_loky()
        if real_omp is None:
            os.environ.pop("OMP_NUM_THREADS", None)
        else:
            os.environ["OMP_NUM_THREADS"] = real_omp
    return recs


RS_NPROCS2 = 20      # thorough: every RS_NPROCS2-th scenario once more with two loader processes (joblib/loky pool)


def _md_child(seed, tier, wd, out):
    """Body of the background process that records the mdtraj-based traces while TLC runs (reassign and
    batch_reassign start process pools, so this cannot be a pool worker).  Writes {"recs": [...]} or
    {"error": traceback} as JSON to `out`."""
    import traceback
    os.environ["OMP_NUM_THREADS"] = "1"     # md.rmsd with one thread per core on a shared machine is ~10x slower
    try:
        recs = reassign_records(seed, os.path.join(wd, "rs"), select=_rs_quick if tier == "quick" else None)
        if tier == "quick":
            recs += mdtraj_records(seed, os.path.join(wd, "md"), scenarios=MD_QUICK)
        else:
            recs += reassign_records(seed, os.path.join(wd, "rs2"), nprocs=2,
                                     select=lambda sc: sc["scenario"] % RS_NPROCS2 == 7)
        res = {"recs": recs}
    except BaseException:
        res = {"error": traceback.format_exc()}
    with open(out + ".tmp", "w") as fh:
        json.dump(res, fh)
    os.replace(out + ".tmp", out)


def start_md_child(seed, tier):
    import multiprocessing as mp
    wd = core.scratch("ev_c10md_")
    for sub in ("rs", "rs2", "md"):
        os.makedirs(os.path.join(wd, sub))
    out = os.path.join(wd, "records.json")
    p = mp.get_context("fork").Process(target=_md_child, args=(seed, tier, wd, out))
    p.start()
    return p, out


def join_md_child(p, out, timeout):
    p.join(timeout)
    if p.is_alive():
        p.kill()
        raise core.MachineryError("the mdtraj trace recorder did not finish within %d s" % timeout)
    if not os.path.exists(out):
        raise core.MachineryError("the mdtraj trace recorder died (exit code %s)" % p.exitcode)
    res = json.load(open(out))
    if "error" in res:
        raise core.MachineryError("the mdtraj trace recorder crashed:\n%s" % res["error"])
    return res["recs"]


# ---------------------------------------------------------------------------
# TLC plumbing

def _consts_assign(sc, metric, emit):
    return {"Dim": sc["Dim"], "P": sc["P"], "Metric": '"%s"' % metric,
            "Shapes": "{" + ", ".join(str(s) for s in sc["Shapes"]) + "}",
            "LabelN": 3, "FullN": 1, "BinN": 1, "MaxFN": 1, "Emit": "TRUE" if emit else "FALSE"}


def _consts_cf(cf, emit):
    d = {"Dim": 1, "P": 1, "Metric": '"l1"', "Shapes": "{101}", "Emit": "TRUE" if emit else "FALSE"}
    d.update(cf)
    return d


def _consts_part(pt, part, emit):
    d = {"Part": '"%s"' % part, "Emit": "TRUE" if emit else "FALSE"}
    d.update(pt)
    return d


def _check_fired(r, actions, label):
    missing = [a for a in actions if not r.coverage.get(a)]
    if missing:
        raise core.MachineryError("vacuous coverage in %s: actions never fired: %s" % (label, missing))


class Reporter:
    """caps the number of violation files per key; counts everything"""
    def __init__(self, ctx):
        self.ctx = ctx
        self.n = {}

    def __call__(self, key, record):
        self.n[key] = self.n.get(key, 0) + 1
        if self.n[key] <= 3:
            self.ctx.violation(record, key=key)
        self.ctx.notes["mismatches_by_key"] = dict(self.n)


def validate_traces(ctx, d, module, recs, label, chunk=6000):
    """Write the records (without private '_' fields) to JSON files, let TLC judge every one,
    return a list of verdicts ('ok' | clause name | 'no-verdict') aligned with recs."""
    if not recs:
        return []
    jobs, spans = [], []
    cfg = core.write_cfg(os.path.join(d, "trace_%s.cfg" % module), invariants=["Verdict"])
    for n, lo in enumerate(range(0, len(recs), chunk)):
        part = recs[lo:lo + chunk]
        path = os.path.join(d, "trace_%s_%s_%d.json" % (module, label.replace(" ", "_"), n))
        with open(path, "w") as fh:
            json.dump([{k: v for k, v in r.items() if not k.startswith("_")} for r in part], fh)
        jobs.append(dict(module=module, cfg=os.path.basename(cfg), cwd=d, workers=1, timeout=900,
                         java_opts=JAVA_OPTS,
                         label="trace validation %s [%d..%d)" % (label, lo, lo + len(part)),
                         env={"TRACE_FILE": path}))
        spans.append((lo, len(part)))
    results = ctx.tlc_parallel(jobs, max_par=12)
    verdicts = ["no-verdict"] * len(recs)
    for (lo, n), r in zip(spans, results):
        for tag, val in r.prints:
            if tag == "ACCEPT":
                verdicts[lo + int(val) - 1] = "ok"
            elif tag == "REJECT":
                verdicts[lo + int(val[0]) - 1] = str(val[1])
    return verdicts


def judge_assign_traces(ctx, report, d, recs, label):
    """recs: lattice/table records and {'_raised':..} records."""
    good = [r for r in recs if "_raised" not in r]
    for r in recs:
        if "_raised" in r:
            ctx.traces += 1
            call = r["_gen"]["call"].split("(")[0]
            if r.get("_empty_leading"):
                report(KEY_EMPTY_BATCH, {"kind": "trace", "gen": r["_gen"], "raised": r["_raised"],
                                         "how": "batch_reassign crashes on the empty leading batch"})
            else:
                report("%s/%s/raised" % (call, r.get("metric", "-")),
                       {"kind": "trace", "gen": r["_gen"], "raised": r["_raised"]})
    verdicts = validate_traces(ctx, d, "Trace_Assign", good, label)
    for r, v in zip(good, verdicts):
        ctx.traces += 1
        g = r["_gen"]
        call = g["call"].split("(")[0]
        nontriv = len(set(r["asg"])) > 1 and any(x > 0 for x in r["d"])
        ctx.case((call, json.dumps(g, sort_keys=True, default=str)) if nontriv else None,
                 sample={"trace": g, "asg": r["asg"], "d": r["d"]} if nontriv and call != "assign_to_nearest_center" else None)
        if v != "ok":
            report("%s/%s/%s" % (call, r["metric"], v),
                   {"kind": "trace", "module": "Trace_Assign", "failing_clause": v, "gen": g,
                    "trace": {k: x for k, x in r.items() if not k.startswith("_")}})
        if r.get("_modified"):
            report("%s/%s/input-modified" % (call, r["metric"]), {"kind": "trace", "gen": g})


def judge_batch_traces(ctx, report, d, recs, label):
    good = [r for r in recs if "_raised" not in r]
    for r in recs:
        if "_raised" in r:
            ctx.traces += 1
            report("compute_batches/raised", {"kind": "trace", "gen": r["_gen"], "raised": r["_raised"]})
    verdicts = validate_traces(ctx, d, "Trace_Partition", good, label)
    for r, v in zip(good, verdicts):
        ctx.traces += 1
        ctx.case(("compute_batches", str(r["lengths"]), r["bsize"]) if len(r["batches"]) > 1 else None)
        if v == "NoEmptyBatch" and r["lengths"][0] >= r["bsize"] and r["batches"][0] == [] \
                and all(b for b in r["batches"][1:]):
            report(KEY_EMPTY_BATCH,
                   {"kind": "trace", "module": "Trace_Partition", "failing_clause": v, "gen": r["_gen"],
                    "trace": {k: x for k, x in r.items() if not k.startswith("_")},
                    "how": "compute_batches returns an empty leading batch; batch_reassign then calls "
                           "load_as_concatenated([]) -> IndexError"})
        elif v != "ok":
            report("compute_batches/%s" % v,
                   {"kind": "trace", "module": "Trace_Partition", "failing_clause": v, "gen": r["_gen"],
                    "trace": {k: x for k, x in r.items() if not k.startswith("_")}})


# ---------------------------------------------------------------------------

def run(ctx):
    sc = SCOPES[ctx.tier]
    ctx.rule = ("assignment cases: TLC enumerates every sequence of n frames and k centres (shapes n*100+k, centres "
                "fewer/equal/more than frames, duplicates allowed) on the lattice x metric x centre-container; "
                "non-trivial = >= 2 centres and some frame not on a centre.  center-finder cases: every label "
                "vector over 3 labels x distance vectors; non-trivial = >= 2 labels present.  partition cases: "
                "every length vector (<= MaxT trajectories, total <= MaxTotal) x label vectors / flat index lists; "
                "non-trivial = >= 2 trajectories.  traces: non-trivial = >= 2 distinct assignments and a non-zero "
                "distance.  distinct by full input")
    ctx.assumptions += [
        "lattice data: integer coordinates; L1/Linf exact, Euclidean compared squared (projection fails if a "
        "reported distance is not within 1e-9 of a lattice value)",
        "flat center indices are valid (0 <= idx < total); out-of-range indices are silently dropped by "
        "partition_indices and are outside the property",
        "compute_batches is called with batch_size >= max(lengths) (the guard of batch_reassign)",
        "find_cluster_centers is replayed with ndarray arguments (a plain list of labels is not supported by the code)",
        "RMSD (reassign, batch_reassign, md.Trajectory containers) is not a lattice metric: judged against a "
        "recorded md.rmsd table scaled 1e5 with a 1e-3 nm budget",
        "reassign(topologies, trajectories, atoms, centers): the distance of a frame to a centre is md.rmsd of the "
        "frame restricted to the atoms selected for its own group (topology order) to the centre; all selections "
        "denote the same number of atoms (what the centres carry); centres are handed over as fresh copies "
        "(reassign centres them in place, which RMSD does not see)",
    ]
    b = core.build_repo()
    core.activate(b)
    import logging
    logging.getLogger("enspara").setLevel(logging.WARNING)    # kcenters logs every iteration at INFO
    d = core.spec_tmp(SPEC_DIR)
    report = Reporter(ctx)
    thorough = ctx.tier == "thorough"
    to = 2400 if thorough else 600
    # file-based reassignment on small generated trajectories: recorded in a background process while TLC runs
    md_child = start_md_child(ctx.seed, ctx.tier)

    jobs, roles = [], []

    def add(role, **kw):
        kw["java_opts"] = JAVA_OPTS       # many small JVMs side by side: keep each one slim
        jobs.append(kw)
        roles.append(role)

    # One TLC run per scope does both jobs: it checks the implementation-shaped model (coverage on) and, at the
    # initial states, prints the definition-level expectations (Emit = TRUE; single worker, so lines stay whole).
    # In 1-D the specification's Linf and L1 are the same function, so the 1-D Linf run only emits.
    for si, s in enumerate(sc["assign"]):
        for m in METRICS:
            tag = "%d_%s" % (si, m)
            mc = not (s["Dim"] == 1 and m == "linf")
            core.write_cfg(os.path.join(d, "a_%s.cfg" % tag), init="InitA", next_="NextA" if mc else "NextNone",
                           constants=_consts_assign(s, m, True), invariants=(INV_A if mc else []) + ["EmitA"],
                           properties=["InputsUnchanged"] if mc else [])
            # per-action coverage is collected on the l1 run of every scope (the actions and branches taken do
            # not depend on the metric); the other metrics run without the ~35% coverage overhead
            cov = mc and (m == "l1" or thorough)
            add(("A", cov, s, m), module="Assign", cfg="a_%s.cfg" % tag, cwd=d, workers=1, coverage=cov, timeout=to,
                label="Assign %s %s %s shapes=%s" % ("exhaustive+emit" if mc else "emit", s["name"], m, s["Shapes"]))
    core.write_cfg(os.path.join(d, "f.cfg"), init="InitF", next_="NextF", constants=_consts_cf(sc["cf"], True),
                   invariants=INV_F + ["EmitF"], properties=["InputsUnchanged"])
    add(("F", True), module="Assign", cfg="f.cfg", cwd=d, workers=1, coverage=True, timeout=to,
        label="find_cluster_centers exhaustive+emit %s" % sc["cf"])
    for part in ("labels", "indices"):
        core.write_cfg(os.path.join(d, "p_%s.cfg" % part), init="InitP", next_="NextP",
                       constants=_consts_part(sc["part"], part, True), invariants=INV_P + ["EmitP"],
                       properties=["InputsUnchangedP"])
        add(("P", True, part), module="Partition", cfg="p_%s.cfg" % part, cwd=d, workers=1, coverage=True, timeout=to,
            label="Partition exhaustive+emit %s %s" % (part, sc["part"]))
    core.write_cfg(os.path.join(d, "b.cfg"), init="InitB", next_="NextB",
                   constants=_consts_part(sc["part"], "both", True), invariants=INV_B + ["EmitB"])
    add(("B", True), module="Partition", cfg="b.cfg", cwd=d, workers=1, coverage=True, timeout=to,
        label="compute_batches exhaustive+emit")

    import resource
    import time

    def cpu():
        a, b_ = resource.getrusage(resource.RUSAGE_CHILDREN), resource.getrusage(resource.RUSAGE_SELF)
        return a.ru_utime + a.ru_stime + b_.ru_utime + b_.ru_stime
    import gc
    gc.disable()            # parsing the emitted cases allocates millions of long-lived objects
    t0, c0 = time.time(), cpu()
    results = ctx.tlc_parallel(jobs, max_par=16)
    phases = {"tlc_exhaustive_and_emit": round(time.time() - t0, 1)}
    cpus = {"tlc_exhaustive_and_emit": round(cpu() - c0, 1)}
    t0, c0 = time.time(), cpu()

    for r in results:
        r.stdout = ""           # tens of MB each; not needed any more (and not worth copying into forked workers)
    # hundreds of thousands of parsed cases are alive from here on: full collections would re-traverse them
    # over and over (and un-share their pages in the forked replay workers)
    gc.freeze()
    # vacuity: every action of the implementation-shaped models fired
    fired_p = {}
    for role, r, j in zip(roles, results, jobs):
        if role[0] == "A" and role[1]:
            need = [a for a in ACT_A if a != "FrameStep" or any(s % 100 > s // 100 for s in role[2]["Shapes"])]
            _check_fired(r, need, j["label"])
        elif role[0] == "F":
            _check_fired(r, ACT_F, j["label"])
        elif role[0] == "B":
            _check_fired(r, ACT_B, j["label"])
        elif role[0] == "P":
            for a in ACT_P:
                fired_p[a] = fired_p.get(a, 0) + (r.coverage.get(a) or 0)
    missing = [a for a in ACT_P if not fired_p.get(a)]
    if missing:
        raise core.MachineryError("vacuous coverage in Partition: actions never fired: %s" % missing)

    # ---- (A) replay
    pred_recs = []
    counter = 0
    def replay_assign_cases(acases):
        res = core.pmap(replay_assign, acases, procs=PROCS, chunk=1000)
        for c, out in zip(acases, res):
            nontriv = len(c["C"]) >= 2 and any(v > 0 for v in c["mind"])
            ctx.case(hash((c["metric"], str(c["X"]), str(c["C"]), c["xyz"])) if nontriv else None,
                     sample={k: v for k, v in c.items() if not k.startswith("_")}
                     if nontriv and len(c["X"]) > 1 and c["xyz"] else None)
            ctx.traces += 1
            for site, form, what, detail in out["bad"]:
                report("%s/%s/%s" % (site, form, what),
                       {"kind": "assign", "site": site, "form": form, "what": what, "detail": detail, "case": c,
                        "how": "%s vs Assign.tla MinD/Allowed" % site})
            pred_recs.extend(out["recs"])

    acases = []
    for role, r in zip(roles, results):
        if role[0] == "A":
            cases = [p for t, p in r.prints if t == "CASE"]
            if not cases:
                raise core.MachineryError("no CASE lines emitted for %s" % (role[1:],))
            r.prints, r.stdout = [], ""
            for c in cases:
                c["_ints"] = sc["dtypes_int"]
                c["_allforms"] = thorough and counter % 4 == 0
                c["_rot"] = counter
                counter += 1
                if counter % sc["pred_every"] == 0:
                    c["_pred"] = counter
            if thorough:                 # one emit job at a time (memory)
                replay_assign_cases(cases)
            else:
                acases += cases
    if acases:
        replay_assign_cases(acases)
    del acases
    for role, r in zip(roles, results):
        if role[0] == "A":
            continue
        elif role[0] == "F":
            cases = [p for t, p in r.prints if t == "CF"]
            if not cases:
                raise core.MachineryError("no CF lines emitted")
            res = core.pmap(replay_cf, cases, procs=PROCS, chunk=1000)
            for c, bad in zip(cases, res):
                ctx.case(("cf", str(c["labels"]), str(c["dists"])) if len(c["uniq"]) >= 2 else None,
                         sample=c if len(c["uniq"]) == 3 and len(c["labels"]) == 5 else None)
                ctx.traces += 1
                for form, what, detail in bad:
                    report("find_cluster_centers/%s/%s" % (form, what),
                           {"kind": "cf", "form": form, "what": what, "detail": detail, "case": c,
                            "how": "find_cluster_centers(labels, dists) vs Assign.tla AllowedCenters"})
        elif role[0] == "P":
            cases = [p for t, p in r.prints if t == "PART"]
            if not cases:
                raise core.MachineryError("no PART lines emitted")
            res = core.pmap(replay_part, cases, procs=PROCS, chunk=500)
            for c, bad in zip(cases, res):
                ctx.case(("part", str(c["lengths"]), str(c["flat"]), str(c["idxs"])) if len(c["lengths"]) >= 2 else None,
                         sample=c if len(c["lengths"]) == 3 and len(c["idxs"]) == 2 and c["idxs"][0] == 3 else None)
                ctx.traces += 1
                for form, what, detail in bad:
                    report("%s/%s" % (form, what),
                           {"kind": "part", "form": form, "what": what, "detail": detail, "case": c,
                            "how": "%s vs Partition.tla ExpectedRows/Pair/AllEqual" % form.split("/")[0]})
        elif role[0] == "B":
            cases = [p for t, p in r.prints if t == "BATCH"]
            if not cases:
                raise core.MachineryError("no BATCH lines emitted")
            batch_recs = core.pmap(batch_record, cases, procs=1, chunk=100000)

    gc.enable()
    phases["replay_A"] = round(time.time() - t0, 1)
    cpus["replay_A"] = round(cpu() - c0, 1)
    t0, c0 = time.time(), cpu()
    # ---- (B) traces judged by TLC
    judge_batch_traces(ctx, report, d, batch_recs, "compute_batches")
    ctx.notes["predict_traces"] = len(pred_recs)
    ctx.notes["predict_traces_mixed_types"] = sum(1 for r in pred_recs
                                                  if r.get("_gen", {}).get("predict_dtype") != r.get("_gen", {}).get("dtype"))

    n_far = 3000 if thorough else 400
    far_recs = [x for sub in core.pmap(far_record, [(ctx.seed, j) for j in range(n_far)], procs=PROCS, chunk=100) for x in sub]
    ctx.notes["far_center_data_sets"] = n_far
    if thorough:
        n_rand = 6000
        rr = core.pmap(random_record, [(ctx.seed, j) for j in range(n_rand)], procs=PROCS, chunk=100)
        rand_recs = [x for sub in rr for x in sub] + far_recs
        ctx.notes["random_data_sets"] = n_rand
        wd = core.scratch("ev_c10md_")
        md_recs = mdtraj_records(ctx.seed, wd)
        ctx.notes["mdtraj_batch_reassign_calls"] = sum(1 for r in md_recs if r["_gen"]["call"] == "batch_reassign")
        md_recs += join_md_child(*md_child, timeout=1200)
        ctx.notes["mdtraj_traces"] = len(md_recs)
        ctx.notes["mdtraj_reassign_calls"] = sum(1 for r in md_recs if r["_gen"]["call"] == "reassign")
        judge_assign_traces(ctx, report, d, pred_recs + rand_recs + md_recs, "predict+random+mdtraj")
        ctx.exhaustive = False      # the random part is a sample
    else:
        md_recs = join_md_child(*md_child, timeout=600)
        ctx.notes["mdtraj_traces"] = len(md_recs)
        ctx.notes["mdtraj_reassign_calls"] = sum(1 for r in md_recs if r["_gen"]["call"] == "reassign")
        ctx.notes["mdtraj_batch_reassign_calls"] = sum(1 for r in md_recs if r["_gen"]["call"] == "batch_reassign")
        judge_assign_traces(ctx, report, d, pred_recs + far_recs + md_recs, "predict+far+mdtraj")
    phases["traces_B"] = round(time.time() - t0, 1)
    cpus["traces_B"] = round(cpu() - c0, 1)
    ctx.notes["phase_wall_s"] = phases
    ctx.notes["phase_cpu_s"] = cpus


def replay(ctx, path):
    rec = json.load(open(path))
    b = core.build_repo()
    core.activate(b)
    report = Reporter(ctx)
    kind = rec.get("kind")
    ctx.nontrivial.add(("replay",))
    if kind == "assign":
        c = rec["case"]
        c["_allforms"] = True
        ctx.case(("replay2",), sample=c)
        for site, form, what, detail in replay_assign(c)["bad"]:
            report("%s/%s/%s" % (site, form, what), {"kind": kind, "case": c, "detail": detail})
    elif kind == "cf":
        c = rec["case"]
        ctx.case(("replay2",), sample=c)
        for form, what, detail in replay_cf(c):
            report("find_cluster_centers/%s/%s" % (form, what), {"kind": kind, "case": c, "detail": detail})
    elif kind == "part":
        c = rec["case"]
        ctx.case(("replay2",), sample=c)
        for form, what, detail in replay_part(c):
            report("%s/%s" % (form, what), {"kind": kind, "case": c, "detail": detail})
    elif kind == "trace":
        g = rec["gen"]
        d = core.spec_tmp(SPEC_DIR)
        ctx.case(("replay2",), sample=g)
        if g["call"] == "compute_batches":
            judge_batch_traces(ctx, report, d, [batch_record(g)], "replay")
        elif g["call"] == "KCenters.fit.predict":
            judge_assign_traces(ctx, report, d,
                                [predict_record(g["metric"], g["train"], g["k"], g["Y"], g["j"], g["ints"])], "replay")
        elif g["call"].startswith("assign_to_nearest_center (far"):
            judge_assign_traces(ctx, report, d, far_record((g["seed"], g["j"])), "replay")
        elif g["call"].startswith("assign_to_nearest_center+"):
            judge_assign_traces(ctx, report, d, random_record((g["seed"], g["j"]))[:1], "replay")
        elif g["call"] == "reassign":
            wd = core.scratch("ev_c10rs_")
            judge_assign_traces(ctx, report, d, reassign_records(g["seed"], wd, only=g["scenario"],
                                                                 nprocs=g.get("nprocs", 1)), "replay")
        else:
            wd = core.scratch("ev_c10md_")
            recs = [r for r in mdtraj_records(g["seed"], wd, only=g.get("scenario"))
                    if r["_gen"].get("scenario") == g.get("scenario") and r["_gen"]["call"] == g["call"]
                    and r["_gen"].get("batch_size") == g.get("batch_size") and r["_gen"].get("branch") == g.get("branch")]
            judge_assign_traces(ctx, report, d, recs, "replay")
    else:
        raise core.MachineryError("unknown replay record kind %r" % kind)

