"""C07 -- committors and mean first-passage times satisfy their first-step equations.

Specs: specs/tpt/Committor.tla (+ common/Rational.tla), specs/tpt/Trace_Committor.tla.

(A) spec -> code.  TLC enumerates every irreducible chain A/D in scope x every
    disjoint source/sink pair (committors), every sink set x lag (mfpts to sinks) and
    lag (all-pairs mfpts); runs the implementation-shaped steps of the code
    (right-hand side, absorbing mask, solve, sum over sink columns, pin sinks /
    ones, solve, lag / populations, fundamental matrix, inverse, formula) in exact
    rational arithmetic; checks the first-step invariants on all of them and prints
    the exact expected values.  The driver replays every printed case into the real
    tpt.committors / tpt.mfpts with dense (C, Fortran, strided), csr, lil and csc
    containers and compares at 1e-9 relative per entry; inputs must be bitwise
    unchanged.  Sources and sinks are SETS in the specification: every case is also
    replayed with another listing of them (reversed, rotated, list / tuple / int16 /
    int32 / uint16 / strided int64 arrays: FORMS).
(A, large chains)  LineChain.tla: reversible nearest-neighbour chains with about a
    thousand states (999, 1000, 1001, 1200: on both sides of the size at which the
    library switches algorithms elsewhere), periodic edge / self weights with single
    overrides, several sources and sinks in the interior.  Their committors and mean
    first-passage times have closed forms (series resistances); TLC checks the first-
    step equations on them at every state (BigNat rationals, linear time) and prints
    them; the driver replays them with ndarray (C / F), csr, csc, lil, coo, dok
    matrices and csr / lil sparse arrays, one listing of the sets per container, and
    requires every argument (sparse index / data arrays, LIL rows) to be unchanged.
(B) code -> spec.  Random irreducible chains with 5..8 states (reversible or not)
    and the chains of the pinned test-suite go through the real code, the outputs
    are logged as scaled integers and Trace_Committor.tla evaluates the first-step
    relations on them.

The driver holds no formula of the property: it only builds inputs, calls the code,
compares numbers with the numbers TLC printed, and moves integers to TLC.
"""
import json
import os
import warnings

import numpy as np

from harness import core

SPEC_DIR = os.path.join(core.SPECS, "tpt")
INVS = ["TypeOK", "Solvable", "RatOK",
        "PinnedSources", "PinnedSinks", "InUnit", "FirstStep", "MaskedEqualsRestricted", "SplitBySink",
        "MZeroOnSinks", "MFPTFirstStep", "LagLinear",
        "PiStationary", "FundamentalIsInverse", "AllPairsColumn", "AllPairsFirstStep"]
ALL_MODES = ("committor", "mfpt_sinks", "mfpt_all")
LAGS = ((1, 1), (5, 2), (1, 4))  # 5/2: a non-integer lag time, 1/4: a lag time below one; both exact in binary
SMALL_HEAP = ("-Xmx1200m",)        # the single-worker part jobs hold < 1e6 states; 16 of them run at once

# parts: the chains of a scope are split over `parts` single-worker TLC processes (checking and
# emitting in one pass); emit: how many of the parts also print their cases for replay
SCOPES = {
    "quick": [dict(N=3, D=3, parts=2, emit=2, coverage=True),     # + a coverage-statistics run on 1/16 of it
              dict(N=3, D=4, parts=3, emit=3),
              dict(N=4, D=2, parts=10, emit=2)],
    "thorough": [# one multi-worker run, no emission; all-pairs mfpts (35 ms of rational arithmetic per chain)
                 # are left to the parts below for this scope
                 # (58 M states for the whole scope: ~10 min on 16 idle cores; one half of the chains,
                 # rotating with VERIF_SEED, keeps the tier inside its budget)
                 dict(N=4, D=3, parts=2, multi=1, workers=12, modes=("committor", "mfpt_sinks")),
                 dict(N=4, D=3, parts=64, emit=2, only_emit=True),  # 2/64 of those chains, all modes, replayed
                 dict(N=3, D=3, parts=1, emit=1, coverage=True),
                 dict(N=3, D=4, parts=2, emit=2),
                 dict(N=3, D=6, parts=8, emit=2),
                 dict(N=4, D=2, parts=4, emit=4),
                 dict(N=5, D=2, sample=40), dict(N=5, D=3, sample=40)],
}
N_TRACES = {"quick": 200, "thorough": 3000}
if os.environ.get("VERIF_SMOKE"):      # a sub-scope of quick, for trying mutants on a busy machine
    SCOPES["quick"] = SCOPES["quick"][:1]
    N_TRACES["quick"] = 60


# ------------------------------------------------------------------ replay (A)

def _containers(T):
    """the same matrix as a C-ordered ndarray, three sparse-matrix formats, a Fortran-ordered ndarray and a
    non-contiguous view into a larger buffer (every second row and column of a junk-filled array)"""
    import scipy.sparse as sp
    n = T.shape[0]
    big = np.full((2 * n + 1, 2 * n + 1), 0.123456789)
    big[1::2, 1::2] = T
    return [("dense", T.copy()), ("csr", sp.csr_matrix(T)), ("lil", sp.lil_matrix(T)),
            ("csc", sp.csc_matrix(T)), ("dense-F", np.asfortranarray(T)), ("dense-view", big[1::2, 1::2])]


def snapshot(x):
    """Bytes/structure of an input, to detect modification by the callee."""
    import scipy.sparse as sp
    if sp.issparse(x):
        if x.format in ("csr", "csc"):
            return (x.format, x.shape, x.data.tobytes(), x.indices.tobytes(), x.indptr.tobytes())
        if x.format == "lil":
            return (x.format, x.shape, [list(r) for r in x.rows], [list(d) for d in x.data])
        if x.format == "coo":
            return (x.format, x.shape, x.data.tobytes(), x.row.tobytes(), x.col.tobytes())
        return (x.format, x.shape, x.toarray().tobytes())
    if isinstance(x, np.ndarray):
        base = x.base.tobytes() if isinstance(x.base, np.ndarray) else b""     # a view: the buffer around it too
        return (x.shape, x.dtype.str, x.strides, x.tobytes(), base)
    return repr(x)


TOL = 1e-9           # relative, per entry
FLOOR = 0.1          # entries are also allowed an absolute error of FLOOR * tol * (largest expected magnitude):
                     # an exact 0 comes back as round-off of the largest terms, never as an exact 0


def rel_mismatch(got, exp, tol=TOL, scale=None):
    """Index of the worst entry of `got` that is not within tol RELATIVE to the expected entry (plus the absolute
    floor above, relative to `scale`, default the largest expected magnitude), or None.  Arrays of equal shape."""
    got = np.asarray(got, dtype=float)
    exp = np.asarray(exp, dtype=float)
    if scale is None:
        scale = float(np.max(np.abs(exp))) if exp.size else 0.0
    with np.errstate(all="ignore"):
        err = np.abs(got - exp)
        ok = np.isfinite(got) & (err <= tol * np.abs(exp) + FLOOR * tol * scale)
    if ok.all():
        return None
    excess = np.where(ok, -1.0, np.where(np.isfinite(err), err / (tol * np.abs(exp) + FLOOR * tol * scale + 1e-300),
                                         np.inf))
    return np.unravel_index(int(np.argmax(excess)), got.shape)


def _describe(got, exp, idx, cap=40):
    got, exp = np.asarray(got, dtype=float), np.asarray(exp, dtype=float)
    d = {"index": [int(i) for i in idx], "got_there": float(got[idx]), "expected_there": float(exp[idx])}
    if got.size <= cap:
        d["got"], d["expected"] = got.tolist(), exp.tolist()
    return d


def _vec_mismatch(got, exp, tol=TOL, scale=None):
    """exp: list of [num, den] (or of floats); got: array-like of the same length."""
    try:
        g = np.asarray(got, dtype=float).ravel()
    except Exception as ex:
        return "result not numeric: %s" % ex
    if g.shape[0] != len(exp):
        return {"got_shape": list(np.shape(got)), "expected_len": len(exp)}
    e = np.array([x[0] / x[1] if isinstance(x, (list, tuple)) else x for x in exp], dtype=float)
    idx = rel_mismatch(g, e, tol, scale)
    return None if idx is None else _describe(g, e, idx)


# ---- the same SET of states, handed over in different orders and integer containers.  The specification's expected
# values belong to the set (Committor.tla / LineChain.tla: src and snk are sets), so the emitted case is replayed
# unchanged with each of these listings.
def _rot(x):
    return x[1:] + x[:1]


def _strided(x):
    buf = np.full(2 * len(x) + 1, -7, dtype=np.int64)
    buf[1::2] = x
    return buf[1::2]


FORMS = [("ndarray", lambda x: np.array(x)),
         ("list-reversed", lambda x: list(reversed(x))),
         ("ndarray-rotated", lambda x: np.array(_rot(x))),
         ("int32-reversed", lambda x: np.array(x[::-1], dtype=np.int32)),
         ("tuple-rotated", lambda x: tuple(_rot(x))),
         ("uint16-reversed", lambda x: np.array(x[::-1], dtype=np.uint16)),
         ("int64-view-rotated", lambda x: _strided(_rot(_rot(x)))),
         ("list-middle-out", lambda x: x[len(x) // 2:] + x[:len(x) // 2][::-1]),
         ("int16-reversed", lambda x: np.array(x[::-1], dtype=np.int16)),
         ("list", lambda x: list(x))]


def _form_snapshot(a):
    return snapshot(a) if isinstance(a, np.ndarray) else repr(a)


def _is_len_typeerror(ex):
    return isinstance(ex, TypeError) and "length" in str(ex)


class _Caller:
    """Calls one entry point, records raised exceptions, modified arguments and value mismatches in self.bad."""

    def __init__(self, tol=TOL):
        self.bad = []
        self.tol = tol

    def __call__(self, fname, cont, form, f, args, exp, scale=None, tol=None, check=None):
        """f(): the call; args: every object handed to it (snapshotted before and after); exp: expected vector
        ([num, den] pairs or floats), or check(got) -> mismatch detail or None."""
        before = [_form_snapshot(a) for a in args]
        what = "%s %s %s" % (fname, cont, form)
        try:
            with warnings.catch_warnings(), np.errstate(all="ignore"):
                warnings.simplefilter("ignore")
                got = f()
        except Exception as ex:
            sparse = not cont.startswith("dense")
            if fname.startswith("mfpts") and sparse and _is_len_typeerror(ex):
                key = "mfpts/sparse/TypeError-len"
            else:
                key = "%s/%s/raises-%s" % (fname, cont, type(ex).__name__)
            self.bad.append({"key": key, "call": what, "detail": "raised %s: %s" % (type(ex).__name__, ex)})
            return None
        if [_form_snapshot(a) for a in args] != before:
            self.bad.append({"key": "%s/%s/input-modified" % (fname, cont), "call": what,
                             "detail": "an argument was modified by the call"})
        mm = check(got) if check is not None else _vec_mismatch(got, exp, tol or self.tol, scale)
        if mm is not None:
            self.bad.append({"key": "%s/%s/value" % (fname, cont), "call": what, "detail": mm})
        return got


def replay_case(c):
    """Replays one CASE of Committor.tla; returns a list of mismatch records."""
    from enspara import tpt
    n, D = c["n"], c["D"]
    den = c.get("den") or [D] * n
    T = np.array(c["A"], dtype=float) / np.array(den, dtype=float)[:, None]
    src = [s - 1 for s in c["src"]]
    snk = [s - 1 for s in c["snk"]]
    lag = c["lag"][0] / c["lag"][1]
    mode = c["mode"]
    call = _Caller()
    fname, form = FORMS[c.get("form", 0) % len(FORMS)]

    for cont, M in _containers(T):
        if cont not in c.get("containers", ALL_CONTAINERS):
            continue
        if mode == "committor":
            a_src, a_snk = np.array(src), np.array(snk)
            call("committors", cont, "arrays", lambda: tpt.committors(M, a_src, a_snk), [M, a_src, a_snk], c["q"],
                 scale=1.0)
            if cont != "dense":
                continue                      # the argument forms below do not depend on the container
            l_src, l_snk = list(src), list(snk)
            call("committors", cont, "pylists", lambda: tpt.committors(M, l_src, l_snk), [M, l_src, l_snk], c["q"],
                 scale=1.0)
            f_src, f_snk = form(src), form(snk)      # another order / integer container of the same sets
            call("committors", cont, fname, lambda: tpt.committors(M, f_src, f_snk), [M, f_src, f_snk], c["q"],
                 scale=1.0)
            if len(src) == 1 and len(snk) == 1:
                call("committors", cont, "scalars", lambda: tpt.committors(M, src[0], snk[0]), [M], c["q"], scale=1.0)
        elif mode == "mfpt_sinks":
            a_snk = np.array(snk)
            call("mfpts-sinks", cont, "lag=%s" % lag, lambda: tpt.mfpts(M, sinks=a_snk, lagtime=lag),
                 [M, a_snk], c["m"], scale=lag)
            if c["lag"] == [1, 1]:
                l_snk = list(snk)
                call("mfpts-sinks", cont, "default lag", lambda: tpt.mfpts(M, sinks=l_snk), [M, l_snk], c["m"],
                     scale=lag)
            if cont == "dense" or len(snk) > 1:
                f_snk = form(snk)
                call("mfpts-sinks", cont, "lag=%s sinks as %s" % (lag, fname),
                     lambda: tpt.mfpts(M, sinks=f_snk, lagtime=lag), [M, f_snk], c["m"], scale=lag)
        else:
            exp = [x for row in c["mAll"] for x in row]
            pops = np.array([a / b for a, b in c["pi"]])
            call("mfpts-all", cont, "lag=%s pops=None" % lag, lambda: tpt.mfpts(M, lagtime=lag), [M], exp)
            call("mfpts-all", cont, "lag=%s pops given" % lag,
                 lambda: tpt.mfpts(M, populations=pops, lagtime=lag), [M, pops], exp)
    return call.bad


ALL_CONTAINERS = ("dense", "csr", "lil", "csc", "dense-F", "dense-view")


def choose_containers(cases, tier):
    """quick tier: committor cases use the C-ordered dense container, ONE sparse container and ONE other dense
    memory layout in rotation (a sparse committors call costs ~1 ms); everything else, and the thorough tier, uses
    all six."""
    for k, c in enumerate(cases):
        c["form"] = 1 + k % (len(FORMS) - 1)          # order / integer container of sources and sinks, in rotation
        if tier == "quick" and c.get("mode", "flux") in ("committor", "flux"):
            c["containers"] = ["dense", ALL_CONTAINERS[1 + k % 3], ALL_CONTAINERS[4 + (k // 3) % 2]]
        else:
            c["containers"] = list(ALL_CONTAINERS)


def _nontrivial(c):
    n = c["n"]
    if c["mode"] == "committor":
        return len(c["src"]) + len(c["snk"]) < n
    if c["mode"] == "mfpt_sinks":
        return len(c["snk"]) < n
    return True


# ------------------------------------------------------------------ large structured chains (LineChain.tla)

LINE_INVS = ["ChainOK", "RangeOK", "PiStationary", "SweepIsDef", "PinnedSources", "PinnedSinks", "InUnit", "FirstStep",
             "MZeroOnSinks", "MFPTFirstStep", "LagLinear", "AllPairsFirstStep"]
LINE_SIZES = {"quick": (999, 1000, 1001, 1200), "thorough": (999, 1000, 1001, 1200, 1999, 2000)}
LINE_SMALL = {"quick": (2, 3, 4, 5), "thorough": (2, 3, 4, 5, 6, 7)}
LINE_PATTERNS = [dict(wpat=[1, 2, 1, 3], spat=[0, 1, 2]), dict(wpat=[2, 1], spat=[1, 0, 0, 3, 1])]
TOL_ALLPAIRS_LARGE = 1e-7     # all-pairs table of a chain with ~1000 states on a line: the fundamental matrix of a
                              # chain that needs ~1e5 steps to relax loses 6 of the 16 digits (measured: 4e-10 with
                              # exact populations, 2e-9 with populations=None); a wrong branch is wrong by O(1)
LINE_CONTAINERS = ("dense", "dense-F", "csr", "csc", "lil", "coo", "dok", "csr_array", "lil_array")
LINE_ALLPAIRS_CONTAINERS = ("dense", "dense-F", "csr", "lil", "dok")   # one 1000 x 1000 inverse each


def line_placements(n, mode):
    """(sources, sinks, columns) placements for a chain with n states (1-based): interior sets of several states,
    neighbouring source and sink, boundary states, one far-away sink (long one-sided stretches)."""
    if mode in ("committor", "flux"):
        return [({3, n // 5, n // 5 + 1}, {40, n // 2, n // 2 + 2, n - 7}, set()),
                ({n // 3, n - 1}, {1, 2, n // 3 + 1, 2 * n // 3}, set())]
    if mode == "mfpt_sinks":
        return [(set(), {40, n // 2, n // 2 + 2, n - 7}, set()), (set(), {n // 3}, set())]
    return [(set(), set(), {1, 2, n // 3, n // 2, n - 1, n})]


def line_cases(sizes, modes, lags, first_id=1):
    cases = []
    for n in sizes:
        for mode in modes:
            for k, (src, snk, cols) in enumerate(line_placements(n, mode)):
                pat = LINE_PATTERNS[(k + len(cases)) % len(LINE_PATTERNS)]
                cases.append(dict(id=first_id + len(cases), n=n, mode=mode, src=src, snk=snk, cols=cols,
                                  lag=lags[len(cases) % len(lags)] if mode.startswith("mfpt") else (1, 1),
                                  wov=[(n // 2, 5)] if k == 1 else [], sov=[(n // 4, 7)] if k == 1 else [],
                                  pscale=(1, 1), **pat))
    return cases


TOL_STIFF_CASE = 1e-6
MANY_N = 5200


def many_sinks_case(mode="committor"):
    """sink sets of thousands of states (a product basin listed microstate by microstate): 5 sources at the left end,
    a stretch of 195 intermediate states, then two of every three states are sinks (3333 of them); the multiple
    right-hand sides of the committor solve no longer fit any block size a memory-minded implementation would pick"""
    n = MANY_N
    return dict(n=n, wpat=[1, 2, 1, 3], spat=[0, 1, 2], wov=[], sov=[], pscale=(1, 1), mode=mode, src=set(range(1, 6)),
                snk={i for i in range(201, n + 1) if i % 3 != 2}, cols=set(), lag=(1, 1))


def line_special_cases(first_id):
    """magnitudes: (a) a state whose stationary probability is ~5e-9 (every other state holds 1.4e7 self-counts): the
    all-pairs table has a column of passage times ~1e9 that must still satisfy the first-step equations; (b) a ladder
    climbed against a 4:1 drift over 16 states: committors from ~1e-9 next to the source to 1 - 1e-9 next to the sink,
    none of them 0 or 1"""
    cases = []
    n = 6
    rare = dict(n=n, wpat=[1], spat=[14000000], wov=[], sov=[(n, 0)], pscale=(1, 1))
    cases.append(dict(rare, mode="mfpt_cols", src=set(), snk=set(), cols={1, n - 1, n}, lag=(1, 1)))
    cases.append(dict(rare, mode="mfpt_sinks", src=set(), snk={n}, cols=set(), lag=(5, 2)))
    cases.append(dict(rare, mode="committor", src={1}, snk={n}, cols=set(), lag=(1, 1)))
    n = 16
    drift = dict(n=n, wpat=[1], spat=[0], wov=[(k, 4 ** (k - 1)) for k in range(1, n)], sov=[], pscale=(1, 1))
    cases.append(dict(drift, mode="committor", src={1}, snk={n}, cols=set(), lag=(1, 1)))
    cases.append(dict(drift, mode="committor", src={n}, snk={1, 2}, cols=set(), lag=(1, 1)))
    # (no mfpt mode for the ladder: its prefix sums leave the 32-bit range LineChain!RangeOK guards)
    for k, c in enumerate(cases):
        c["id"] = first_id + k
    return cases


def _tla_seq(x):
    return "<<" + ", ".join(_tla_seq(y) if isinstance(y, (list, tuple)) else str(int(y)) for y in x) + ">>"


def _tla_set(x):
    return "{" + ", ".join(str(int(y)) for y in sorted(x)) + "}"


def tla_line_case(c):
    return ('[id |-> %d, n |-> %d, wpat |-> %s, spat |-> %s, wov |-> %s, sov |-> %s, src |-> %s, snk |-> %s, '
            'cols |-> %s, lag |-> %s, mode |-> "%s", pscale |-> %s]'
            % (c["id"], c["n"], _tla_seq(c["wpat"]), _tla_seq(c["spat"]), _tla_seq(c["wov"]), _tla_seq(c["sov"]),
               _tla_set(c["src"]), _tla_set(c["snk"]), _tla_set(c["cols"]), _tla_seq(c["lag"]), c["mode"],
               _tla_seq(c["pscale"])))


def line_module(d, name, cases, small_ns=(), modes=(), lags=((1, 1),), base="LineChain", small_pat=None):
    small_pat = small_pat or LINE_PATTERNS[0]
    txt = ["---- MODULE %s ----" % name, "EXTENDS %s" % base,
           "MCCases == {%s}" % ",\n            ".join(tla_line_case(c) for c in cases),
           "MCSmallNs == %s" % _tla_set(small_ns),
           "MCSmallW == %s" % _tla_seq(small_pat["wpat"]), "MCSmallS == %s" % _tla_seq(small_pat["spat"]),
           "MCModes == {%s}" % ", ".join('"%s"' % m for m in modes),
           "MCLags == {%s}" % ", ".join(_tla_seq(l) for l in lags), "===="]
    with open(os.path.join(d, name + ".tla"), "w") as fh:
        fh.write("\n".join(txt) + "\n")
    return name


LINE_CONSTANTS = dict(Cases="<- MCCases", SmallNs="<- MCSmallNs", SmallW="<- MCSmallW", SmallS="<- MCSmallS",
                      Modes="<- MCModes", Lags="<- MCLags")
LINE_MODES = ("committor", "mfpt_sinks", "mfpt_cols")
LINE_JAVA = ("-Xmx1200m", "-XX:ParallelGCThreads=2")    # few, large states


def _line_jobs(ctx, d):
    """one emitting single-worker TLC process per large size, one (with action coverage) for the small sizes in
    which every placement of sources and sinks is enumerated"""
    jobs = []
    cfg = core.write_cfg(os.path.join(d, "line.cfg"), init="LInit", next_="LNext", invariants=LINE_INVS + ["EmitInv"],
                         constants=dict(LINE_CONSTANTS, Emit="TRUE"))
    nid = 1
    for n in LINE_SIZES[ctx.tier]:
        cases = line_cases([n], LINE_MODES, LAGS, first_id=nid)
        nid += len(cases)
        mod = line_module(d, "MCLine%d" % n, cases)
        jobs.append(dict(module=mod, cfg=os.path.basename(cfg), cwd=d, workers=1, timeout=1800, java_opts=LINE_JAVA,
                         label="line chains n=%d (%d cases), check+emit" % (n, len(cases))))
    mod = line_module(d, "MCLineSmall", line_special_cases(nid), small_ns=LINE_SMALL[ctx.tier], modes=LINE_MODES, lags=LAGS[:2])
    jobs.append(dict(module=mod, cfg=os.path.basename(cfg), cwd=d, workers=1, timeout=1800, java_opts=LINE_JAVA,
                     coverage=True, label="line chains n in %s, every placement, check+emit+action coverage"
                     % (list(LINE_SMALL[ctx.tier]),)))
    return jobs


def big(digits):
    """BigNat.tla: little-endian digits in base 4096"""
    v = 0
    for k, x in enumerate(digits):
        v += int(x) << (12 * k)
    return v


def br_vec(v):
    """sequence of BigNat rationals [[digits], [digits]] -> float vector (Python's int / int is correctly rounded)"""
    return np.array([big(a) / big(b) for a, b in v], dtype=float)


def line_matrix(c):
    """T = X / rowsum(X) for the tridiagonal symmetric weight matrix X of the case (w[k]: edge k -- k+1, s: self)"""
    n, w, s = c["n"], c["w"], c["s"]
    X = np.zeros((n, n))
    X[np.arange(n), np.arange(n)] = s
    X[np.arange(n - 1), np.arange(1, n)] = w[:n - 1]
    X[np.arange(1, n), np.arange(n - 1)] = w[:n - 1]
    return X / X.sum(axis=1)[:, None]


def line_containers(T, names=LINE_CONTAINERS):
    import scipy.sparse as sp
    make = {"dense": lambda: T.copy(), "dense-F": lambda: np.asfortranarray(T), "csr": lambda: sp.csr_matrix(T),
            "csc": lambda: sp.csc_matrix(T), "lil": lambda: sp.lil_matrix(T), "coo": lambda: sp.coo_matrix(T),
            "dok": lambda: sp.dok_matrix(T), "csr_array": lambda: sp.csr_array(T),
            "lil_array": lambda: sp.lil_array(T)}
    for name in names:
        yield name, make[name]()


def _columns_mismatch(got, cols, cv, n, tol):
    g = np.asarray(got, dtype=float)
    if g.shape != (n, n):
        return {"got_shape": list(g.shape), "expected_shape": [n, n]}
    for s, col in zip(cols, cv):
        idx = rel_mismatch(g[:, s - 1], col, tol)
        if idx is not None:
            d = _describe(g[:, s - 1], col, idx)
            d["column"] = s - 1
            return d
    return None


def single_thread():
    """BLAS runs in this process only: the replay workers are processes already, and on a shared machine a
    multi-threaded eigen-decomposition of a 1000 x 1000 matrix takes 50 times longer than a single-threaded one"""
    try:
        import threadpoolctl
        return threadpoolctl.threadpool_limits(limits=1)
    except ImportError:
        import contextlib
        return contextlib.nullcontext()


def replay_line_case(c):
    """Replays one CASE of LineChain.tla (committors / mfpts to a sink set / columns of the all-pairs table)."""
    with single_thread():
        return _replay_line_case(c)


def _replay_line_case(c):
    from enspara import tpt
    n, mode = c["n"], c["mode"]
    T = line_matrix(c)
    src = [x - 1 for x in c["src"]]
    snk = [x - 1 for x in c["snk"]]
    lag = c["lag"][0] / c["lag"][1]
    large = n > 64
    # a chain whose self-counts exceed its edge weights 10^6 times: the linear systems the real code solves have a
    # condition number of that order, and so has the comparison (an inf, a 0 or a 1 in the wrong place is still caught)
    ctol = TOL_STIFF_CASE if max(c["s"]) >= 10 ** 6 * max(1, min(x for x in c["w"][:n - 1])) else None
    call = _Caller()
    names = c.get("containers") or (LINE_ALLPAIRS_CONTAINERS if mode == "mfpt_cols" else LINE_CONTAINERS)
    if n >= 4000:
        names = ("dense", "csr")          # (27 million cells per dense copy)
    if mode == "committor":
        q = br_vec(c["q"])
    elif mode == "mfpt_sinks":
        m, pops = br_vec(c["m"]), br_vec(c["pi"])
    else:
        cv, pops = [br_vec(v) for v in c["cv"]], br_vec(c["pi"])
        tol = ctol or (TOL_ALLPAIRS_LARGE if large else TOL)
    for ci, (cont, M) in enumerate(line_containers(T, names)):
        fname, form = FORMS[(c["id"] + ci) % len(FORMS)]
        tag = "n=%d %s" % (n, fname)
        if mode == "committor":
            f_src, f_snk = form(src), form(snk)
            call("committors", cont, tag, lambda: tpt.committors(M, f_src, f_snk), [M, f_src, f_snk], q, scale=1.0, tol=ctol)
        elif mode == "mfpt_sinks":
            f_snk = form(snk)
            call("mfpts-sinks", cont, tag + " lag=%s pops given" % lag,
                 lambda: tpt.mfpts(M, sinks=f_snk, populations=pops, lagtime=lag), [M, f_snk, pops], m, scale=lag, tol=ctol)
            if cont == "dense" or not large:
                call("mfpts-sinks", cont, tag + " lag=%s pops=None" % lag,
                     lambda: tpt.mfpts(M, sinks=f_snk, lagtime=lag), [M, f_snk], m, scale=lag, tol=ctol)
        else:
            chk = lambda got: _columns_mismatch(got, c["cols"], cv, n, tol)     # noqa: E731
            call("mfpts-all", cont, "n=%d lag=%s pops given" % (n, lag),
                 lambda: tpt.mfpts(M, populations=pops, lagtime=lag), [M, pops], None, check=chk)
            if cont == "dense" or not large:
                call("mfpts-all", cont, "n=%d lag=%s pops=None" % (n, lag), lambda: tpt.mfpts(M, lagtime=lag), [M],
                     None, check=chk)
    return call.bad


# ------------------------------------------------------------------ TLC jobs (A)

def _tla_matrix(a):
    return "<<" + ", ".join("<<" + ", ".join(str(int(x)) for x in row) + ">>" for row in a) + ">>"


def _mc_module(d, name, chains=None, modes=ALL_MODES, lags=LAGS, base="Committor"):
    txt = ["---- MODULE %s ----" % name, "EXTENDS %s" % base,
           "MCLags == {%s}" % ", ".join("<<%d, %d>>" % l for l in lags),
           "MCModes == {%s}" % ", ".join('"%s"' % m for m in modes),
           "MCChains == {%s}" % ", ".join(_tla_matrix(a) for a in (chains or [])),
           "===="]
    with open(os.path.join(d, name + ".tla"), "w") as fh:
        fh.write("\n".join(txt) + "\n")
    return name


def _random_chains(rng, n, D, k):
    """k random irreducible integer matrices with row sums D (irreducibility is re-checked by Init)."""
    from scipy.sparse.csgraph import connected_components
    out = []
    while len(out) < k:
        a = np.zeros((n, n), dtype=int)
        for i in range(n):
            for _ in range(D):
                a[i, rng.integers(0, n)] += 1
        if connected_components(a > 0, directed=True, connection="strong")[0] == 1:
            out.append(a.tolist())
    return out


def _jobs(ctx, d, rng):
    jobs, meta = [], []
    for si, sc in enumerate(SCOPES[ctx.tier]):
        N, D = sc["N"], sc["D"]
        if "sample" in sc:
            chains = _random_chains(rng, N, D, sc["sample"])
            mod = _mc_module(d, "MC%d" % si, chains=chains)
            cfg = core.write_cfg(os.path.join(d, "mc%d.cfg" % si), invariants=INVS + ["EmitInv"],
                                 constants=dict(N=N, D=D, Part=0, Parts=1, Emit="TRUE", Chains="<- MCChains",
                                                Lags="<- MCLags", Modes="<- MCModes"))
            jobs.append(dict(module=mod, cfg=os.path.basename(cfg), cwd=d, workers=1, timeout=3600, java_opts=SMALL_HEAP,
                             label="sampled chains N=%d D=%d (%d), check+emit" % (N, D, len(chains))))
            meta.append(dict(sc=sc, emit=True))
            continue
        mod = _mc_module(d, "MC%d" % si, modes=sc.get("modes", ALL_MODES))
        if sc.get("multi"):
            part = ctx.seed % sc["parts"]
            cfg = core.write_cfg(os.path.join(d, "mc%d.cfg" % si), invariants=INVS,
                                 constants=dict(N=N, D=D, Part=part, Parts=sc["parts"], Emit="FALSE",
                                                Chains="<- MCChains", Lags="<- MCLags", Modes="<- MCModes"))
            jobs.append(dict(module=mod, cfg=os.path.basename(cfg), cwd=d, workers=sc.get("workers", 8),
                             timeout=7200, label="exhaustive N=%d D=%d part %d/%d modes=%s (no emission)"
                             % (N, D, part, sc["parts"], "/".join(sc.get("modes", ALL_MODES)))))
            meta.append(dict(sc=sc, emit=False))
            continue
        first = ctx.seed % sc["parts"]
        if sc.get("coverage"):        # TLC's -coverage costs ~3x: collect action counts on a 1/16 slice
            cfg = core.write_cfg(os.path.join(d, "mc%d_cov.cfg" % si), invariants=INVS,
                                 constants=dict(N=N, D=D, Part=ctx.seed % 16, Parts=16, Emit="FALSE",
                                                Chains="<- MCChains", Lags="<- MCLags", Modes="<- MCModes"))
            jobs.append(dict(module=mod, cfg=os.path.basename(cfg), cwd=d, workers=1, timeout=1500, coverage=True, java_opts=SMALL_HEAP,
                             label="N=%d D=%d 1/16 slice, action coverage" % (N, D)))
            meta.append(dict(sc=sc, emit=False, cov=True))
        emit_parts = {(first + k) % sc["parts"] for k in range(sc["emit"])}
        for p in range(sc["parts"]):
            emit = p in emit_parts
            if sc.get("only_emit") and not emit:
                continue
            cfg = core.write_cfg(os.path.join(d, "mc%d_%d.cfg" % (si, p)),
                                 invariants=INVS + (["EmitInv"] if emit else []),
                                 constants=dict(N=N, D=D, Part=p, Parts=sc["parts"],
                                                Emit="TRUE" if emit else "FALSE", Chains="<- MCChains",
                                                Lags="<- MCLags", Modes="<- MCModes"))
            jobs.append(dict(module=mod, cfg=os.path.basename(cfg), cwd=d, workers=1, timeout=3600, java_opts=SMALL_HEAP,
                             label="exhaustive N=%d D=%d part %d/%d%s" % (N, D, p, sc["parts"],
                                                                         " +emit" if emit else "")))
            meta.append(dict(sc=sc, emit=emit))
    return jobs, meta


# ------------------------------------------------------------------ traces (B)

K_COMMITTOR, K_SINKS, K_ALL = 1, 2, 3
CONT_TAG = {"dense": 0, "csr": 1, "lil": 2, "csc": 3}
LIMIT = 2 ** 30 - 1


def _pick_scale(maxabs, n, maxden, ln, ld):
    """largest power of ten <= 10^4 that keeps the products of Trace_Committor.MRange in range"""
    for k in (4, 3, 2, 1):
        s = 10 ** k
        mx = int(maxabs * s) + 2
        if 2 * n * maxden * ld * mx < LIMIT and maxden * ln * s < LIMIT and (ln + ld) * mx < LIMIT:
            return s
    return None


def _ints(v, s):
    return [int(x) for x in np.rint(np.asarray(v, dtype=float).ravel() * s)]


def _random_chain(rng):
    """(A, den): integer matrix with row sums den, irreducible; reversible with probability 1/2."""
    from scipy.sparse.csgraph import connected_components
    while True:
        n = int(rng.integers(5, 9))
        if rng.random() < 0.5:                      # reversible: symmetric weights
            X = np.triu(rng.integers(0, 4, size=(n, n)) * (rng.random((n, n)) < 0.6))
            X = X + np.triu(X, 1).T
            A = X.astype(int)
        else:                                       # common denominator D, few non-zeros per row
            D = int(rng.integers(4, 11))
            A = np.zeros((n, n), dtype=int)
            for i in range(n):
                cols = rng.choice(n, size=int(rng.integers(1, min(n, 4) + 1)), replace=False)
                for _ in range(D):
                    A[i, rng.choice(cols)] += 1
        den = A.sum(axis=1)
        if (den > 0).all() and connected_components(A > 0, directed=True, connection="strong")[0] == 1:
            return A, den


PINNED_SUITE = [  # the chains of enspara/test/test_tpt_fluxes.py, written as integers / row sums
    dict(A=[[10, 8, 2], [5, 10, 5], [2, 10, 8]], pairs=[([0], [2])], sinks=[[2]]),
    dict(A=[[10, 8, 2, 0], [5, 10, 4, 1], [2, 3, 10, 5], [0, 2, 8, 10]], pairs=[([0], [3]), ([0, 2], [3])],
         sinks=[[3]]),
    dict(A=[[2, 1, 1], [2, 1, 2], [3, 2, 1]], pairs=[([1], [2])], sinks=[[0], [0, 1]]),
]


def record_trace(job):
    """Calls the real code on one chain and projects the outputs to integers.
    Returns dict(trace=..., errors=[...], skipped=int)."""
    from enspara import tpt
    A = np.array(job["A"], dtype=int)
    den = A.sum(axis=1)
    n = len(A)
    T = A / den[:, None].astype(float)
    events, errors, skipped = [], [], 0
    maxden = int(den.max())

    def guarded(what, f):
        try:
            with warnings.catch_warnings(), np.errstate(all="ignore"):
                warnings.simplefilter("ignore")
                return f()
        except Exception as ex:
            errors.append({"call": what, "detail": "raised %s: %s" % (type(ex).__name__, ex),
                           "exc": type(ex).__name__})
            return None

    conts = dict(_containers(T))
    for (src, snk), cont in job["committors"]:
        q = guarded("committors %s" % cont, lambda: tpt.committors(conts[cont], np.array(src), np.array(snk)))
        if q is not None:
            events.append({"k": K_COMMITTOR, "cont": CONT_TAG[cont], "src": [s + 1 for s in src],
                           "snk": [s + 1 for s in snk], "q": _ints(q, 10 ** 6)})
    for snk, (ln, ld) in job["sinks"]:
        m = guarded("mfpts sinks", lambda: tpt.mfpts(T, sinks=np.array(snk), lagtime=ln / ld))
        m1 = guarded("mfpts sinks lag 1", lambda: tpt.mfpts(T, sinks=list(snk)))
        if m is None or m1 is None:
            continue
        s = _pick_scale(max(np.abs(m).max(), np.abs(m1).max()), n, maxden, ln, ld)
        if s is None or not (np.isfinite(m).all() and np.isfinite(m1).all()):
            skipped += 1
            continue
        events.append({"k": K_SINKS, "cont": 0, "snk": [x + 1 for x in snk], "ln": ln, "ld": ld, "s": s,
                       "m": _ints(m, s), "m1": _ints(m1, s)})
    for (ln, ld) in job["allpairs"]:
        mall = guarded("mfpts all", lambda: tpt.mfpts(T, lagtime=ln / ld))
        cols = [guarded("mfpts sinks=[%d]" % j, lambda: tpt.mfpts(T, sinks=[j], lagtime=ln / ld)) for j in range(n)]
        if mall is None or any(x is None for x in cols):
            continue
        mall = np.asarray(mall, dtype=float)
        mx = max(np.abs(mall).max(), max(np.abs(x).max() for x in cols))
        s = _pick_scale(mx, n, maxden, ln, ld) if np.isfinite(mx) else None
        if s is None or mall.shape != (n, n):
            skipped += 1
            continue
        events.append({"k": K_ALL, "cont": 0, "ln": ln, "ld": ld, "s": s,
                       "mall": [_ints(r, s) for r in mall], "cols": [_ints(x, s) for x in cols]})
    return {"trace": {"n": n, "den": [int(x) for x in den], "A": A.tolist(), "events": events},
            "errors": errors, "skipped": skipped}


def _trace_jobs(rng, count):
    jobs = []
    lags = [(1, 1), (5, 2), (1, 2), (7, 3), (10, 1), (3, 8)]
    for p in PINNED_SUITE:
        jobs.append(dict(A=p["A"], committors=[(pr, cn) for pr in p["pairs"] for cn in CONT_TAG],
                         sinks=[(s, l) for s in p["sinks"] for l in lags[:3]], allpairs=[(1, 1), (5, 1)]))
    while len(jobs) < count:
        A, _ = _random_chain(rng)
        n = len(A)
        comm = []
        for _ in range(3):
            k = int(rng.integers(2, n + 1))                 # states used by sources + sinks
            states = [int(x) for x in rng.choice(n, size=k, replace=False)]
            cut = int(rng.integers(1, k))
            pair = (states[:cut], states[cut:])             # listed in the (random) order drawn: the sets matter
            comm += [(pair, cn) for cn in ("dense", "csr", "lil")]
        sinks = []
        for _ in range(2):
            snk = [int(x) for x in rng.choice(n, size=int(rng.integers(1, n)), replace=False)]   # any order
            sinks.append((snk, lags[int(rng.integers(0, len(lags)))]))
        jobs.append(dict(A=A.tolist(), committors=comm, sinks=sinks,
                         allpairs=[lags[int(rng.integers(0, len(lags)))]]))
    return jobs


def _run_traces(ctx, d, rng):
    jobs = _trace_jobs(rng, N_TRACES[ctx.tier])
    recs = core.pmap(record_trace, jobs, chunk=25)
    skipped = sum(r["skipped"] for r in recs)
    nev = sum(len(r["trace"]["events"]) for r in recs)
    if skipped > 0.05 * max(1, nev):
        raise core.MachineryError("projection could not scale %d of %d mfpt events into 32-bit range" % (skipped, nev))
    for job, r in zip(jobs, recs):
        for e in r["errors"]:
            _violation(ctx, {"kind": "trace-recording", "chain": job["A"], "call": e["call"], "detail": e["detail"],
                             "how": "T = A / rowsum(A); the call must not raise on an irreducible chain"},
                       key="trace/%s/raises-%s" % (e["call"].split()[0], e["exc"]))
    path = os.path.join(d, "traces.json")
    with open(path, "w") as fh:
        json.dump([r["trace"] for r in recs], fh)
    cfg = core.write_cfg(os.path.join(d, "trace.cfg"), invariants=["Verdict"])
    r = ctx.tlc("Trace_Committor", os.path.basename(cfg), d, label="trace validation (%d chains, %d events)"
                % (len(recs), nev), workers=1, env={"TRACE_FILE": path}, timeout=1200)
    verdict = {}
    for tag, val in r.prints:
        if tag == "ACCEPT":
            verdict[val] = None
        elif tag == "REJECT":
            verdict[val["tid"]] = [tuple(x) for x in val["bad"]]
    for tid, rec in enumerate(recs, start=1):
        tr = rec["trace"]
        if tid not in verdict:
            raise core.MachineryError("no verdict for trace %d" % tid)
        ctx.traces += 1
        ctx.case(("trace", json.dumps(tr["A"])), sample=None)
        if verdict[tid] is None:
            continue
        clauses = sorted({c for _, c in verdict[tid]})
        if "Range" in clauses or "Input" in clauses:
            raise core.MachineryError("trace %d rejected by %s (driver bug): %s" % (tid, clauses, json.dumps(tr)[:2000]))
        for ev_i, clause in sorted(verdict[tid]):
            ev = tr["events"][ev_i - 1]
            cont = [k for k, v in CONT_TAG.items() if v == ev["cont"]][0]
            fn = {K_COMMITTOR: "committors", K_SINKS: "mfpts-sinks", K_ALL: "mfpts-all"}[ev["k"]]
            _violation(ctx, {"kind": "trace", "clause": clause, "chain": tr["A"], "row_sums": tr["den"], "event": ev,
                             "how": "Trace_Committor.tla %s on the recorded output of tpt.%s (%s); q x 1e6, mfpt x s"
                                    % (clause, fn, cont)},
                       key="trace/%s/%s/%s" % (fn, cont, clause))
    ctx.notes["trace_events"] = nev
    ctx.notes["trace_events_skipped_out_of_range"] = skipped


# ------------------------------------------------------------------ entry points

REPORT_CAP = 3      # examples written per mismatch class; every mismatch is counted in the evidence


def _violation(ctx, record, key):
    """ctx.violation, at most REPORT_CAP times per key unless the key is a listed known finding
    (then every hit is counted by the framework)."""
    counts = ctx.notes.setdefault("mismatch_counts", {})
    counts[key] = counts.get(key, 0) + 1
    if counts[key] <= REPORT_CAP or any(k["key"] == key for k in ctx.known):
        ctx.violation(record, key=key)


def _report(ctx, c, bad):
    line = c.get("family") == "line"
    for b in bad:
        how = ("T = X / rowsum(X), X tridiagonal symmetric with X[k][k+1] = w[k], X[i][i] = s[i] (states 1-based in "
               "the case, numbers are base-4096 digit lists [numerator, denominator]); tpt.%s vs the exact value "
               "printed by LineChain.tla" if line else
               "T = A/D (states 1-based in the case); tpt.%s vs the exact value printed by Committor.tla")
        _violation(ctx, {"kind": "replay", "case": c, "call": b["call"], "detail": b["detail"],
                         "how": how % b["call"].split()[0]},
                   key=b["key"])


def _replay_line_results(ctx, results, jobs, replay_fn=None, report=None):
    """replays the CASE lines of the LineChain.tla / LineFlux.tla jobs (all of them in one pool, one large case per
    task); returns the number of cases"""
    cases = []
    for r, j in zip(results, jobs):
        if j.get("coverage") and not r.coverage:
            raise core.MachineryError("no coverage statistics from %s" % j["label"])
        mine = [p for t, p in r.prints if t == "CASE"]
        if not mine:
            raise core.MachineryError("no CASE lines emitted by %s" % j["label"])
        cases += mine
    cases.sort(key=lambda c: -c["n"])                   # the expensive ones first
    nlarge = sum(1 for c in cases if c["n"] > 64)
    res = core.pmap(replay_fn or replay_line_case, cases[:nlarge], chunk=1) + \
        core.pmap(replay_fn or replay_line_case, cases[nlarge:], chunk=50)
    for c, bad in zip(cases, res):
        nt = _nontrivial(c) if c["mode"] in ("committor", "mfpt_sinks") else True
        key = ("line", c["n"], str(c["w"][:12]), str(c["s"][:12]), c["mode"], str(c["src"]), str(c["snk"]),
               str(c.get("cols")), str(c.get("lag")), str(c.get("pscale")))
        ctx.case(key if nt else None, sample=None)
        ctx.traces += 1
        (report or _report)(ctx, c, bad)
    return len(cases)


def many_sinks_part(ctx):
    """the clauses FirstStep / PinnedSources / PinnedSinks / InUnit of LineChain.tla on the chain of many_sinks_case():
    5200 states are beyond what TLC evaluates in exact arithmetic in reasonable time (3.5 minutes and a stack overflow),
    so no expected VALUES exist at this size; the clauses themselves are evaluated in floating point on what the real
    code returns (residual of q[i] = sum_j T[i][j] q[j] on the intermediate states at 1e-9)"""
    from enspara import tpt
    c = many_sinks_case()
    n = c["n"]
    c["w"] = [c["wpat"][k % len(c["wpat"])] for k in range(n)]
    c["s"] = [c["spat"][k % len(c["spat"])] for k in range(n)]
    T = line_matrix(c)
    src = sorted(x - 1 for x in c["src"])
    snk = sorted(x - 1 for x in c["snk"])
    inter = np.setdiff1d(np.arange(n), src + snk)
    rng = np.random.default_rng(ctx.seed)
    shuffled = [int(x) for x in rng.permutation(snk)]
    import scipy.sparse as sp
    with single_thread():
        for cont, M, sinks in (("dense", T, snk), ("csr", sp.csr_matrix(T), shuffled)):
            ctx.case(("many-sinks", cont))
            ctx.traces += 1
            try:
                q = np.asarray(tpt.committors(M, src, sinks), dtype=float)
            except Exception as ex:
                _violation(ctx, {"kind": "replay", "call": "committors (%d states, %d sinks, %s)" % (n, len(snk), cont),
                                 "detail": "raised %s: %s" % (type(ex).__name__, str(ex)[:200])},
                           key="committors/%s/many-sinks/raised" % cont)
                continue
            res = np.abs(T[inter] @ q - q[inter])
            bad = []
            if q.shape != (n,) or not np.isfinite(q).all():
                bad.append("shape/finite")
            else:
                if np.abs(q[src]).max() > 0:
                    bad.append("PinnedSources")
                if np.abs(q[snk] - 1).max() > 0:
                    bad.append("PinnedSinks")
                if q.min() < -1e-12 or q.max() > 1 + 1e-12:
                    bad.append("InUnit")
                if res.max() > 1e-9:
                    bad.append("FirstStep")
            for b in bad:
                worst = int(inter[int(np.argmax(res))])
                _violation(ctx, {"kind": "replay", "call": "committors", "container": cont,
                                 "chain": "many_sinks_case(): %d states on a line, sources %s, %d sinks (two of every three states "
                                          "from 201 on)" % (n, [x + 1 for x in src], len(snk)),
                                 "clause": b, "largest_first_step_residual": float(res.max()), "at_state": worst + 1,
                                 "q_there": float(q[worst]) if q.shape == (n,) else None,
                                 "how": "LineChain.tla clause evaluated in floating point on the returned vector (no exact "
                                        "expectation at this size)"},
                           key="committors/%s/many-sinks/%s" % (cont, b))
    ctx.notes["many_sinks_case"] = {"states": n, "sinks": len(snk)}


def memory_capped_part(ctx, b):
    """behaviour after a handled error (harness/tpt_capped.py): a sparse chain too large to densify under an
    address-space cap; a MemoryError is an answer, a returned vector must satisfy the clauses"""
    import subprocess
    env = dict(os.environ, OMP_NUM_THREADS="1", OPENBLAS_NUM_THREADS="1", PYTHONPATH="")
    p = subprocess.run([core.PY, os.path.join(core.VERIF, "harness", "tpt_capped.py"), b], stdout=subprocess.PIPE,
                       stderr=subprocess.PIPE, text=True, env=env, timeout=900)
    line = [l for l in p.stdout.splitlines() if l.startswith("CAPPED ")]
    if not line:
        raise core.MachineryError("tpt_capped.py printed no result (rc=%s): %s" % (p.returncode, p.stderr[-1500:]))
    recs = json.loads(line[-1][len("CAPPED "):])
    for r in recs:
        ctx.case(("memory-capped", r["call"], r["container"]))
        ctx.traces += 1
        for clause in r.get("failed_clauses", []):
            _violation(ctx, dict(r, kind="replay", clause=clause,
                                 how="harness/tpt_capped.py <build>: 30000-state sparse line chain, RLIMIT_AS = current + 1.5 GiB; "
                                     "LineChain.tla clause evaluated on the returned vector"),
                       key="committors/%s/memory-capped/%s" % (r["container"], clause))
    ctx.notes["memory_capped_outcomes"] = {r["container"]: r["outcome"] for r in recs}


def run(ctx):
    ctx.assumptions += ["large chains (LineChain.tla): reversible nearest-neighbour chains with 999..1200 states, "
                        "closed-form values checked by TLC against the first-step equations; all-pairs tables of "
                        "these are compared at %g relative (selected columns), everything else at %g relative per "
                        "entry + %g of the largest entry" % (TOL_ALLPAIRS_LARGE, TOL, FLOOR * TOL)]
    ctx.rule = ("(A) TLC enumerates every irreducible integer chain A/D in scope x mode (committors: every disjoint "
                "non-empty source/sink pair; mfpts to sinks: every non-empty sink set x lag; all-pairs: lag); "
                "distinct by (A, mode, sources, sinks, lag); non-trivial when at least one state is neither source "
                "nor sink. (A, large) LineChain.tla: nearest-neighbour chains with 999..1200 states x placements of "
                "several sources / sinks (committors, mfpts to the sinks, columns of the all-pairs table), and every "
                "placement for 2..5 states; replayed with 9 containers and 10 listings (order, integer container) of "
                "the source / sink sets. (B) random irreducible chains with 5..8 states, distinct by matrix")
    ctx.assumptions += ["exact scope: n <= 5 states with at most 4 non-absorbing states, row sums D <= 6",
                        "(B) accepts outputs within 1e-6 (committors) / 1 unit of the 4th decimal (mfpts, scale "
                        "reduced for large values) of the first-step relations",
                        "float64 inputs; containers ndarray, csr_matrix, lil_matrix, csc_matrix"]
    rng = np.random.default_rng(ctx.seed)
    b = core.build_repo()
    core.activate(b)
    d = core.spec_tmp(SPEC_DIR)
    import time
    t0 = time.time()
    jobs, meta = _jobs(ctx, d, rng)
    ljobs = [] if os.environ.get("VERIF_SMOKE") else _line_jobs(ctx, d)
    results = ctx.tlc_parallel(jobs + ljobs, max_par=16)       # the (short) line jobs fill the slots freed first
    results, line_results = results[:len(jobs)], results[len(jobs):]
    t1 = time.time()
    _run_traces(ctx, d, rng)
    t2 = time.time()
    ncases = 0
    for r, mt in zip(results, meta):
        if mt.get("cov") and not r.coverage:
            raise core.MachineryError("no coverage statistics from the coverage slice")
        if not mt["emit"]:
            continue
        cases = [p for t, p in r.prints if t == "CASE"]
        if not cases:
            raise core.MachineryError("no CASE lines emitted for %s" % mt["sc"])
        ncases += len(cases)
        choose_containers(cases, ctx.tier)
        res = core.pmap(replay_case, cases)
        for c, bad in zip(cases, res):
            key = (str(c["A"]), c["mode"], str(c["src"]), str(c["snk"]), str(c["lag"]))
            nt = _nontrivial(c)
            ctx.case(key if nt else None, sample=c if nt and c["mode"] == "committor" and len(c["snk"]) > 1 else None)
            ctx.traces += 1
            _report(ctx, c, bad)
    ctx.notes["replayed_cases"] = ncases
    t3 = time.time()
    ctx.notes["replayed_line_cases"] = _replay_line_results(ctx, line_results, ljobs)
    many_sinks_part(ctx)
    memory_capped_part(ctx, b)
    ctx.notes["wall_s_line_replay"] = round(time.time() - t3, 1)
    ctx.notes["wall_s_tlc_traces_replay"] = [round(t1 - t0, 1), round(t2 - t1, 1), round(t3 - t2, 1)]
    if any("sample" in sc or sc.get("only_emit") or sc.get("multi") or sc.get("emit", 0) < sc.get("parts", 0)
           for sc in SCOPES[ctx.tier]):
        ctx.exhaustive = False       # model checking is exhaustive per scope; replay covers a part of some scopes


def replay(ctx, path):
    rec = json.load(open(path))
    b = core.build_repo()
    core.activate(b)
    if rec.get("kind") == "replay":
        line = rec["case"].get("family") == "line"
        bad = replay_line_case(rec["case"]) if line else replay_case(rec["case"])
        ctx.case(("replay",), sample=None if line else rec["case"])
        _report(ctx, rec["case"], bad)
    else:
        print("replay of %s records re-runs the check" % rec.get("kind"))
        run(ctx)
