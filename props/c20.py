"""C20 -- rotamer assignment is a correct hysteresis state machine; the
transition bookkeeping reports frame n exactly when frames n and n+1 differ.

Specs: specs/geometry/Rotamer.tla, specs/geometry/Transitions.tla.

Rotamer.tla runs two machines in lockstep on the same angle history: the
definition (circular-interval membership in the widened basin) and the
implementation-shaped transcription of _rotamers / is_buffered_transition /
get_gates.  TLC (a) decides ImplMatchesDef, ZeroBufferIsBinning, ValidState,
Hysteresis, ExitRebins, FirstIsBasin on every (boundary set, buffer, state,
angle) of the range in which no widened basin overlaps itself, (b) summarises
the rest of the accepted buffer range (where the transcription deviates), and
(c) emits angle walks with the state sequences of both machines.  The driver
replays every walk into the real rotamer._rotamers (three input forms) and
groups of walks into phi_/psi_/chi_/all_rotamers (dihedral_angles replaced by
a table of the emitted angles) and compares values, dtype, shape with the
DEFINITION's sequence.

Transitions.tla transcribes disorder.transitions (1-D and 2-D branch) next to
the per-row first-difference definition; TLC checks the clauses and emits
every input in scope with the expected frames; the driver replays them as
1-D arrays, 2-D arrays and RaggedArrays.

Python never decides what the right answer is: a mismatch is `real output !=
sequence emitted by TLC for the definition`; the transcription's sequence is
used only to classify a mismatch as the known deviation class.
"""
import json
import os

import numpy as np

from harness import core

SPEC_DIR = os.path.join(core.SPECS, "geometry")

# hard_boundaries of the library callers, indexed like Lib in Rotamer.tla
LIB = {1: [0, 180, 360], 2: [0, 160, 360], 3: [0, 120, 240, 360]}
FN = {1: "phi", 2: "psi", 3: "chi"}

K_WIDE = "rotamer/_rotamers/widened-basin-covers-circle"
K_TRAIL = "disorder.transitions/2d/trailing-rows-without-transitions-dropped"
K_NONE = "disorder.transitions/2d/no-transitions-in-any-row-raises"
K_ONEFRAME = "disorder.transitions/ragged/single-frame-row-raises"

ROT_INV_REGULAR = ["TypeOK", "GridAvoidsGates", "BasinsPartition", "PsiRoundTrip", "ImplMatchesDef",
                   "ValidState", "ZeroBufferIsBinning", "StateContainsAngle"]
ROT_PROPS = ["FirstIsBasin", "Hysteresis", "ExitRebins"]
ROT_INV_WIDE = ["TypeOK", "GridAvoidsGates", "BasinsPartition", "ValidState", "StateContainsAngle", "WideSummary"]
ROT_INV_EMIT = ["TypeOK", "GridAvoidsGates", "ValidState", "EmitInv"]

TR_INV = ["TypeOK", "DefShape", "TransitionIffDiffer", "Exact1D", "PrefixExact", "DroppedAreEmpty",
          "RaisesOnlyWithoutTransitions"]


# --------------------------------------------------------------------------
# scopes

def rot_consts(**kw):
    base = dict(BSets="{1, 2, 3}", BufLo=0, BufHi=360, BufStep=10, Range='"accepted"', AngleStep=0, FineStep=0,
                NearGates="FALSE", FirstMid="FALSE", MaxLen=0, Emit="FALSE", EmitPrefixes="FALSE")
    base.update(kw)
    return {k: str(v) for k, v in base.items()}


def tr_consts(**kw):
    base = dict(S=3, Dim=2, MaxR=2, MinL=1, MaxL=3, Ragged="FALSE", Variant='"pinned"', NParts=1, Part=0,
                Emit="TRUE")
    base.update(kw)
    return {k: str(v) for k, v in base.items()}


def rot_jobs(tier):
    """list of (label, kind, constants, tlc kwargs)"""
    J = []
    bstep = 10 if tier == "quick" else 2            # buffers every 5 / every 1 degree (half-degree units)
    # (a) exhaustive, range without self-overlap: transition graph over near-gate + 10-degree alphabet,
    #     per-(state, angle) formulas over the 1-degree grid
    for bs in ("{1}", "{2}", "{3}") if tier == "thorough" else ("{1, 2, 3}",):
        J.append(("rotamer exhaustive regular sets=%s bufstep=%s" % (bs, bstep), "regular",
                  rot_consts(BSets=bs, BufStep=bstep, Range='"regular"', AngleStep=20, FineStep=2, NearGates="TRUE"),
                  dict(workers=4, coverage=True)))
    # (b) rest of the accepted range
    for bs in ("{1}", "{2}"):
        J.append(("rotamer wide-range graph + summary sets=%s bufstep=10" % bs, "wide",
                  rot_consts(BSets=bs, BufStep=10, Range='"wide"', AngleStep=40 if tier == "quick" else 20,
                             FineStep=2, NearGates="TRUE"),
                  dict(workers=1, coverage=True)))
    if tier == "thorough":
        J.append(("rotamer wide-range summary all buffers (no graph)", "wide",
                  rot_consts(BSets="{1, 2}", BufStep=2, Range='"wide"', AngleStep=0, FineStep=2, NearGates="TRUE",
                             MaxLen=1), dict(workers=1)))
    # (c) walks
    # first frame at 1-degree resolution
    J.append(("walks len1 1deg", "walk", rot_consts(BufHi=30, BufStep=30, AngleStep=2, MaxLen=1, Emit="TRUE",
                                                    EmitPrefixes="TRUE"), dict(workers=1)))
    # every (state, angle) pair at 1-degree resolution: first frame puts the machine into each basin
    for bs in ("{1}", "{2}", "{3}"):
        if tier == "quick":
            parts = [(0, 360)]
        else:
            parts = [(0, 118), (120, 238), (240, 360)] if bs != "{3}" else [(0, 118), (120, 238)]
        for lo, hi in parts:
            J.append(("walks len2 every (state, angle) 1deg sets=%s buf=%d..%d" % (bs, lo, hi), "walk",
                      rot_consts(BSets=bs, BufLo=lo, BufHi=hi, BufStep=bstep, AngleStep=2, FirstMid="TRUE",
                                 MaxLen=2, Emit="TRUE"), dict(workers=1)))
    # all walks of <= 3 frames over the angles adjacent to every boundary and gate
    # (quick: buffers every 15 degrees -- contains the default 15 and both sides of the self-overlap
    # thresholds; thorough: every 5 degrees)
    l3 = 30 if tier == "quick" else 10
    for bs, parts in (("{1}", [(0, 360)]), ("{2}", [(0, 360)]), ("{3}", [(0, 110), (120, 230)])):
        for lo, hi in parts:
            J.append(("walks len<=3 near-gates sets=%s buf=%d..%d step %d" % (bs, lo, hi, l3), "walk",
                      rot_consts(BSets=bs, BufLo=lo, BufHi=hi, BufStep=l3, NearGates="TRUE", MaxLen=3, Emit="TRUE",
                                 EmitPrefixes="TRUE"), dict(workers=1)))
    if tier == "thorough":
        # walks of 4 frames, selected buffers (incl. both sides of the self-overlap threshold)
        for bs, bufs in (("{1}", [(0, 30), (160, 190), (300, 330)]), ("{2}", [(0, 30), (140, 170), (300, 330)]),
                         ("{3}", [(30, 30), (120, 120), (230, 230)])):
            for lo, hi in bufs:
                J.append(("walks len4 near-gates sets=%s buf=%d..%d" % (bs, lo, hi), "walk",
                          rot_consts(BSets=bs, BufLo=lo, BufHi=hi, BufStep=10, NearGates="TRUE", MaxLen=4,
                                     Emit="TRUE"), dict(workers=1)))
        # walks of <= 3 frames over near-gate + 60-degree grid, default buffer and neighbours
        J.append(("walks len<=3 near-gates+60deg buf=10..20deg", "walk",
                  rot_consts(BufLo=20, BufHi=40, BufStep=10, AngleStep=120, NearGates="TRUE", MaxLen=3, Emit="TRUE",
                             EmitPrefixes="TRUE"), dict(workers=1)))
    return J


def sim_jobs(tier, seed):
    n, per = (2, 150) if tier == "quick" else (8, 1500)
    return [("simulated walks len30 10deg+near-gates #%d" % k, "walk",
             rot_consts(AngleStep=20, NearGates="TRUE", MaxLen=30, Emit="TRUE"),
             dict(workers=1, simulate="num=%d" % per, seed=seed * 1000 + k + 1, extra=("-depth", "31")))
            for k in range(n)]


def tr_jobs(tier):
    J = [("transitions 1-D S=3 len<=6", tr_consts(Dim=1, MaxL=6)),
         ("transitions 2-D S=3 rows<=2 len<=4", tr_consts(MaxR=2, MaxL=4)),
         ("transitions 2-D S=2 rows<=3 len<=4", tr_consts(S=2, MaxR=3, MaxL=4)),
         ("transitions 2-D S=3 rows<=3 len 2", tr_consts(MaxR=3, MinL=2, MaxL=2)),
         ("transitions ragged S=2 rows<=3 len<=3", tr_consts(S=2, MaxR=3, MaxL=3, Ragged="TRUE"))]
    if tier == "thorough":
        J += [("transitions 1-D S=3 len<=9", tr_consts(Dim=1, MinL=7, MaxL=9)),
              ("transitions 2-D S=3 rows<=3 len 3", tr_consts(MaxR=3, MinL=3, MaxL=3)),
              ("transitions 2-D S=2 rows<=4 len<=4", tr_consts(S=2, MaxR=4, MaxL=4)),
              ("transitions 2-D S=3 rows<=2 len 5", tr_consts(MaxR=2, MinL=5, MaxL=5)),
              ("transitions ragged S=3 rows<=3 len<=3", tr_consts(S=3, MaxR=3, MaxL=3, Ragged="TRUE")),
              ("transitions ragged S=2 rows<=3 len<=4", tr_consts(S=2, MaxR=3, MinL=2, MaxL=4, Ragged="TRUE"))]
        J += [("transitions 2-D S=3 rows<=3 len 4 part %d/4" % k, tr_consts(MaxR=3, MinL=4, MaxL=4, NParts=4, Part=k))
              for k in range(4)]
    return J


# --------------------------------------------------------------------------
# replay: rotamers

def _deg(h):
    return h // 2 if h % 2 == 0 else h / 2.0


def _classify_rot(c, got, exp, impl):
    """got != exp.  The known class is exactly: a buffer for which some widened basin
    overlaps itself AND the real output equals the transcription's sequence."""
    if c["w"] and got == impl:
        return K_WIDE
    return None


def replay_walk(c):
    """-> list of (key, detail)"""
    from enspara.geometry import rotamer
    hb = LIB[c["b"]]
    ang = [x / 2.0 for x in c["a"]]
    buf = _deg(c["buf"])
    exp = c["e"]
    bad = []
    forms = [("f64-intbuf", lambda: (np.array(ang, dtype=np.float64), list(hb), buf)),
             ("list-floatbuf", lambda: (list(ang), np.array(hb), float(buf))),
             ("f32-intbuf", lambda: (np.array(ang, dtype=np.float32), tuple(hb), buf))]
    for form, mk in forms:
        a, h, w = mk()
        try:
            r = rotamer._rotamers(a, h, buffer_width=w)
        except Exception as ex:     # every buffer emitted is in the accepted range: no error is admitted
            bad.append(("rotamer/_rotamers/raised", {"form": form, "raised": "%s: %s" % (type(ex).__name__, ex)}))
            continue
        if not isinstance(r, np.ndarray) or r.dtype != np.int16 or r.shape != (len(ang),):
            bad.append(("rotamer/_rotamers/dtype-shape", {"form": form, "type": str(type(r)),
                                                         "dtype": str(getattr(r, "dtype", None)),
                                                         "shape": str(getattr(r, "shape", None))}))
            continue
        got = [int(x) for x in r]
        if got != exp:
            key = _classify_rot(c, got, exp, c["i"]) or "rotamer/_rotamers/values/" + form
            bad.append((key, {"form": form, "got": got, "expected": exp, "transcription": c["i"],
                              "call": "_rotamers(%r, %r, buffer_width=%r)" % (ang, hb, buf)}))
    return bad


class _Table:
    """stands for the md.Trajectory: the table of dihedral angles per type"""

    def __init__(self, t, n_frames=0):
        self.t = t
        # what code above the dihedral computation may legitimately ask a trajectory: a few frames of a LARGE system
        # (size-dependent paths, e.g. a frame-block bound in frames x atoms, are entered with walks of 2..4 frames)
        self.n_frames = n_frames
        self.n_atoms = 2500000
        self.topology = _StubTopology()

    def __len__(self):
        return self.n_frames

    def __getitem__(self, key):
        """frames key of the trajectory (slice / index array), as md.Trajectory slices"""
        idx = np.arange(self.n_frames)[key]
        idx = np.atleast_1d(idx)
        return _Table({k: (np.asarray(a)[idx], ids) for k, (a, ids) in self.t.items()}, len(idx))

    def slice(self, key, copy=True):
        return self[key]


def _fake_dihedral_angles(traj, dihedral_type):
    ang, ids = traj.t[dihedral_type]
    inds = np.zeros((len(ids), 4), dtype=int)
    inds[:, 0] = ids
    return np.array(ang, dtype=np.float64).copy(), inds


class _StubTopology:
    def atom(self, i):
        import types
        return types.SimpleNamespace(index=int(i))


class _StubMd:
    """stands for the mdtraj module inside enspara.geometry.rotamer: compute_phi(traj) -> (atom indices, radians)"""

    def __getattr__(self, name):
        if not name.startswith("compute_"):
            raise AttributeError(name)
        kind = name[len("compute_"):]

        def compute(traj):
            ang, ids = traj.t[kind]
            deg = np.array(ang, dtype=np.float64)
            rad = np.deg2rad(np.where(deg > 180, deg - 360, deg)).astype(np.float32)
            rad[deg == 359.5] = np.float32(-1e-7)
            if kind == "psi":
                # psi is shifted by 100 degrees inside psi_rotamers: 99.5 (the grid angle below that seam) is given
                # as 99.999985 -- same side of the boundary, no gate in between
                rad[deg == 99.5] = np.float32(np.deg2rad(99.999985))
            inds = np.zeros((len(ids), 4), dtype=int)
            inds[:, 0] = ids
            inds[:, 2] = ids
            return inds, rad
        return compute


def replay_group(g):
    """g: {"buf": half-degrees, "n": frames, "cases": {b: [walk, ...]}}: the walks of one buffer
    and length become the columns of the angle table handed to the library callers."""
    from enspara.geometry import rotamer
    buf = _deg(g["buf"])
    n = g["n"]
    cols = {}      # type -> (angles n x k, ids)
    order = []     # (b, walk) in expected output order for all_rotamers
    gid = 0
    by_b = {int(b): ws for b, ws in g["cases"].items()}

    def table(b, ws, key):
        nonlocal gid
        ids = list(range(gid, gid + len(ws)))
        gid += len(ws)
        src = "raw" if b == 2 else "a"
        arr = np.array([[x / 2.0 for x in w[src]] for w in ws], dtype=np.float64).T.reshape(n, len(ws))
        cols[key] = (arr, ids)

    table(1, by_b.get(1, []), "phi")
    table(2, by_b.get(2, []), "psi")
    chi = by_b.get(3, [])
    q = (len(chi) + 3) // 4
    for k in range(4):
        table(3, chi[k * q:(k + 1) * q], "chi%d" % (k + 1))
    traj = _Table(cols, n)
    bad = []
    saved, saved_md = rotamer.dihedral_angles, rotamer.md
    if g.get("real_conversion"):
        # the library's own radians -> [0, 360) conversion runs: mdtraj's compute_<type> is replaced instead, and hands
        # out what mdtraj does -- float32 radians in (-pi, pi]. 359.5 degrees (the angle next to the seam in the
        # grid) is given as -1e-7 rad = 359.999994 degrees: same basin, no gate in between
        rotamer.md = _StubMd()
        traj.topology = _StubTopology()
    else:
        rotamer.dihedral_angles = _fake_dihedral_angles
    try:
        calls = []
        if all(by_b.get(b) for b in (1, 2, 3)) and g["buf"] * 3 < 720:
            calls.append(("all_rotamers", rotamer.all_rotamers, by_b[1] + by_b[2] + by_b[3]))
        else:
            for b, f in ((1, rotamer.phi_rotamers), (2, rotamer.psi_rotamers), (3, rotamer.chi_rotamers)):
                if by_b.get(b) and g["buf"] * (len(LIB[b]) - 1) < 720:
                    calls.append((f.__name__, f, by_b[b]))
        for name, f, ws in calls:
            try:
                rot, inds, nst = f(traj, buffer_width=buf)
            except Exception as ex:
                bad.append(("rotamer/%s/raised" % name, {"raised": "%s: %s" % (type(ex).__name__, ex),
                                                         "buf": buf, "n": n, "first": ws[0]}))
                continue
            if rot.shape != (n, len(ws)) or not np.issubdtype(rot.dtype, np.integer) or \
                    len(nst) != len(ws) or not np.issubdtype(np.asarray(nst).dtype, np.integer) or \
                    np.asarray(inds).shape != (len(ws), 4):
                bad.append(("rotamer/%s/dtype-shape" % name, {"shape": str(rot.shape), "dtype": str(rot.dtype),
                                                              "n_states": str(np.asarray(nst).shape),
                                                              "atom_inds": str(np.asarray(inds).shape)}))
                continue
            for j, w in enumerate(ws):
                got = [int(x) for x in rot[:, j]]
                if int(nst[j]) != w["nb"]:
                    bad.append(("rotamer/%s/n_states" % name, {"column": j, "got": int(nst[j]), "expected": w["nb"]}))
                if got != w["e"]:
                    key = _classify_rot(w, got, w["e"], w["i"]) or "rotamer/%s/values" % name
                    bad.append((key, {"via": name, "case": w, "got": got, "expected": w["e"], "buffer_width": buf}))
            # the atom index rows must come back in the order of the columns
            ids = [int(x) for x in np.asarray(inds)[:, 0]]
            if ids != sorted(ids) or len(set(ids)) != len(ids):
                bad.append(("rotamer/%s/atom-inds-order" % name, {"ids": ids[:50]}))
            if name == "all_rotamers" and ((g["buf"] + n) % 2 == 0 or g.get("force_featurizer")):
                # the trajectory-set entry point of CARDS: every trajectory of the set (here: the same table three
                # times) is assigned with the featurizer's buffer width, whatever the number of workers
                from enspara.cards.featurizers import RotamerFeaturizer
                for procs in (1, 2):
                    try:
                        fz = RotamerFeaturizer(buffer_width=buf, n_procs=procs)
                        fz.fit(iter([traj, traj, traj]) if procs == 2 else [traj, traj, traj])
                        feats = fz.feature_trajectories_
                    except Exception as ex:
                        bad.append(("rotamer/RotamerFeaturizer/raised", {"raised": "%s: %s" % (type(ex).__name__, ex),
                                                                         "buf": buf, "n_procs": procs}))
                        continue
                    for ti, ft in enumerate(feats):
                        wrong = [j for j, w in enumerate(ws) if [int(x) for x in np.asarray(ft)[:, j]] != w["e"]
                                 and not _classify_rot(w, [int(x) for x in np.asarray(ft)[:, j]], w["e"], w["i"])]
                        if len(feats) != 3 or wrong:
                            j = wrong[0] if wrong else 0
                            bad.append(("rotamer/RotamerFeaturizer/values", {"via": "RotamerFeaturizer(buffer_width=%s, n_procs=%d).fit" % (buf, procs),
                                                                             "trajectory": ti, "n_feature_trajectories": len(feats), "case": ws[j],
                                                                             "got": [int(x) for x in np.asarray(ft)[:, j]] if wrong else None,
                                                                             "expected": ws[j]["e"], "buffer_width": buf}))
                            break
    finally:
        rotamer.dihedral_angles, rotamer.md = saved, saved_md
    if g.get("real_conversion"):
        bad = [(k.replace("rotamer/", "rotamer/real-angle-conversion/", 1), dict(dd, angles="float32 radians from a "
                "stand-in for mdtraj.compute_<type>; 359.5 degrees given as -1e-7 rad, psi = 99.5 as 99.999985")) for k, dd in bad]
    return bad


# --------------------------------------------------------------------------
# replay: transitions

def _rows_of(tt):
    return [[int(x) for x in tt[k]] for k in range(len(tt))]


def replay_trans(c):
    from enspara.cards import disorder
    from enspara import ra
    bad = []
    arr = c["arr"]
    if c["dim"] == 1:
        # whether frames n and n+1 differ does not depend on what the state labels are: the same sequence once
        # more under the injection s -> 65536 s (labels of a large state space, congruent modulo 2^16) in wide types
        for dt in (np.int16, np.int64, "x65536-int64", "x65536-int32", "x65536-uint32"):
            if isinstance(dt, str):
                a = (np.array(arr[0], dtype=np.int64) * 65536).astype(dt.split("-")[1])
                a0 = a.copy()
                dt = type("wide", (), {"__name__": dt})
            else:
                a = np.array(arr[0], dtype=dt)
                a0 = a.copy()
            try:
                tt = disorder.transitions(a)
            except Exception as ex:
                bad.append(("disorder.transitions/1d/raised", {"dtype": dt.__name__, "raised": "%s: %s" % (type(ex).__name__, ex)}))
                continue
            if not isinstance(tt, np.ndarray) or tt.ndim != 1 or not np.issubdtype(tt.dtype, np.integer):
                bad.append(("disorder.transitions/1d/dtype-shape", {"type": str(type(tt))}))
                continue
            got = [int(x) for x in tt]
            if got != c["e"]:
                bad.append(("disorder.transitions/1d/values", {"dtype": dt.__name__, "got": got, "expected": c["e"]}))
            if a.tolist() != a0.tolist():
                bad.append(("disorder.transitions/1d/input-modified", {}))
        return bad
    lens = {len(r) for r in arr}
    forms = []
    if len(lens) == 1:
        forms += [("2d-int16", lambda: np.array(arr, dtype=np.int16)), ("2d-int64", lambda: np.array(arr, dtype=np.int64)),
                  ("2d-x65536-int64", lambda: np.array(arr, dtype=np.int64) * 65536)]
        if min(lens) >= 1:
            forms.append(("ragged-equal-int16", lambda: ra.RaggedArray([np.array(r, dtype=np.int16) for r in arr])))
    else:
        forms += [("ragged-int16", lambda: ra.RaggedArray([np.array(r, dtype=np.int16) for r in arr])),
                  ("ragged-int64", lambda: ra.RaggedArray([np.array(r, dtype=np.int64) for r in arr])),
                  ("ragged-x65536-int32", lambda: ra.RaggedArray([(np.array(r, dtype=np.int64) * 65536).astype(np.int32) for r in arr]))]
    for form, mk in forms:
        cont = "ragged" if form.startswith("ragged") else "2d"
        try:
            a = mk()
        except Exception as ex:
            raise RuntimeError("cannot build input container %s for %r: %s" % (form, arr, ex))
        try:
            tt = disorder.transitions(a)
            got = _rows_of(tt)
        except Exception as ex:
            if cont == "ragged" and min(lens) == 1:
                # input class: RaggedArray holding a one-frame trajectory (a[:, 1:] yields an empty row)
                key = K_ONEFRAME
            elif c["raised"] and c["none"]:
                # known class: the transcription raises exactly when no row has a transition
                key = K_NONE
            else:
                key = "disorder.transitions/%s/raised" % cont
            bad.append((key, {"form": form, "raised": "%s: %s" % (type(ex).__name__, ex), "expected": c["e"]}))
            continue
        if got != c["e"]:
            # known class: exactly the transcription's result, which TLC proved to be the
            # definition minus trailing rows without transitions (PrefixExact, DroppedAreEmpty)
            if (not c["raised"]) and got == c["i"] and c["trailing"] > 0 and len(got) == len(arr) - c["trailing"]:
                key = K_TRAIL
            else:
                key = "disorder.transitions/%s/values" % cont
            bad.append((key, {"form": form, "got": got, "expected": c["e"], "transcription": c["i"]}))
    return bad


# --------------------------------------------------------------------------

def _hkey(*parts):
    return hash(parts)


class _Reporter:
    """Every mismatch is counted per key (ctx.notes['mismatch_counts']).  A key listed in
    known_findings.json is passed to ctx.violation every time (cheap, gives the KNOWN-FINDING
    count); an unlisted key at most CAP times -- core keeps 3 replay files per key and its
    bookkeeping is quadratic in the number of reported violations."""
    CAP = 3

    def __init__(self, ctx):
        self.ctx = ctx
        self.counts = {}
        self.known = {k["key"] for k in ctx.known}
        ctx.notes["mismatch_counts"] = self.counts

    def __call__(self, record, key):
        n = self.counts.get(key, 0)
        self.counts[key] = n + 1
        if key in self.known or n < self.CAP:
            self.ctx.violation(record, key=key)


def run(ctx):
    ctx.rule = ("rotamers: TLC enumerates (boundary set in the 3 library sets) x (every accepted buffer on the "
                "tier's buffer grid) x angle walks (half-degree lattice, odd values only: x.5 degrees, so no gate "
                "or boundary is hit); a walk is non-trivial when its expected state sequence changes state or "
                "holds a state against plain binning (hysteresis in effect); distinct by (set, buffer, walk). "
                "transitions: every input array in scope, non-trivial when some row has a transition; "
                "distinct by (dim, array)")
    ctx.assumptions += [
        "angles in [0, 360) at x.5 degrees; boundaries and buffers integer degrees (no angle equals a gate)",
        "boundary sets are the three the library uses: [0,180,360], [0,160,360] (psi, after the -100 degree shift), "
        "[0,120,240,360]",
        "'buffer in range' = accepted by _rotamers: 0 <= buffer < 360/n_basins",
        "dihedral_angles (mdtraj) is replaced by a table of the emitted angles when the callers "
        "phi_/psi_/chi_/all_rotamers are replayed",
        "exhaustive only within the configured scope; walks longer than 4 frames are sampled (TLC -simulate)",
    ]
    b = core.build_repo()
    core.activate(b)
    d = core.spec_tmp(SPEC_DIR)
    report = _Reporter(ctx)

    # ---------------- TLC jobs
    jobs, meta = [], []

    def add(module, label, kind, consts, invs, props=(), **kw):
        name = "j%d.cfg" % len(jobs)
        core.write_cfg(os.path.join(d, name), constants=consts, invariants=invs, properties=props)
        kw.setdefault("timeout", 900 if ctx.tier == "quick" else 2400)
        # the models are small (< 10^6 states): a 2 GB heap keeps TLC's up-front fingerprint
        # table small, so that ten concurrent JVMs stay below ~10 GB resident
        kw.setdefault("java_opts", ("-Xmx2g",))
        jobs.append(dict(module=module, cfg=name, cwd=d, label=label, **kw))
        meta.append(kind)

    for label, kind, consts, kw in rot_jobs(ctx.tier) + sim_jobs(ctx.tier, ctx.seed):
        if kind == "regular":
            add("Rotamer", label, kind, consts, ROT_INV_REGULAR, ROT_PROPS, **kw)
        elif kind == "wide":
            add("Rotamer", label, kind, consts, ROT_INV_WIDE, ["FirstIsBasin"], **kw)
        else:
            add("Rotamer", label, kind, consts, ROT_INV_EMIT, **kw)
    for label, consts in tr_jobs(ctx.tier):
        add("Transitions", label, "trans", consts, TR_INV + ["EmitInv"], workers=1, coverage=True)
    # model-level statements about the transcriptions of disorder.transitions (tiny scope):
    # the pinned code breaks KeepPosition / NeverRaises, minlength alone still raises, row-wise is exact
    small = dict(S=2, MaxR=3, MaxL=3, Emit="FALSE")
    add("Transitions", "model: pinned transcription vs KeepPosition", "model-neg", tr_consts(**small),
        ["KeepPosition"], workers=1, expect_ok=False)
    add("Transitions", "model: pinned transcription vs NeverRaises", "model-neg", tr_consts(**small),
        ["NeverRaises"], workers=1, expect_ok=False)
    add("Transitions", "model: minlength transcription vs NeverRaises", "model-neg",
        tr_consts(Variant='"minlength"', **small), ["NeverRaises"], workers=1, expect_ok=False)
    add("Transitions", "model: minlength transcription keeps positions", "model-pos",
        tr_consts(Variant='"minlength"', **small), TR_INV + ["KeepPosition"], workers=1)
    add("Transitions", "model: row-wise transcription exact", "model-pos",
        tr_consts(Variant='"rowwise"', **small), TR_INV + ["KeepPosition", "NeverRaises"], workers=1)

    # quick: everything at once; thorough: in batches, so that the emitted cases of one batch are
    # replayed and released before the next batch is generated
    per = len(jobs) if ctx.tier == "quick" else 10
    st = dict(notes={}, wide=[], n_walks=0, ncols=0, n_tr=0)
    for s0 in range(0, len(jobs), per):
        bj, bm = jobs[s0:s0 + per], meta[s0:s0 + per]
        results = ctx.tlc_parallel(bj, max_par=10)
        _handle(ctx, report, bj, bm, results, st)
        del results

    ctx.notes["transitions_model_variants"] = st["notes"]
    wide = st["wide"]
    dev = [w for w in wide if sum(w["ndev"]) > 0]
    ctx.notes["accepted_buffers_with_self_overlapping_widened_basin"] = {
        "pairs_examined": len({(w["b"], w["buf"]) for w in wide}),
        "pairs_where_transcription_deviates_from_definition": len({(w["b"], w["buf"]) for w in dev}),
        "smallest_deviating_buffer_deg_per_set": {str(LIB[b]): min([w["buf"] / 2.0 for w in dev if w["b"] == b],
                                                                  default=None) for b in (1, 2)},
        "example": dev[0] if dev else None,
    }
    ctx.notes["walks_replayed"] = st["n_walks"]
    ctx.notes["columns_replayed_through_library_callers"] = st["ncols"]
    ctx.notes["transition_inputs_replayed"] = st["n_tr"]


def _handle(ctx, report, jobs, meta, results, st):
    # ---------------- model-level notes
    for j, kind, r in zip(jobs, meta, results):
        if kind == "model-neg":
            st["notes"][j["label"]] = "violated (%s)" % r.violated if r.violated else "holds"
        elif kind == "model-pos":
            st["notes"][j["label"]] = "holds" if r.ok else "violated (%s)" % r.violated
        elif kind == "wide":
            rows = [p for t, p in r.prints if t == "WIDE"]
            if not rows:
                raise core.MachineryError("no WIDE summary lines from %s" % j["label"])
            st["wide"] += rows

    # ---------------- replay walks
    groups = {}
    for j, kind, r in zip(jobs, meta, results):
        if kind != "walk":
            continue
        seen = set()
        cases = []
        for t, p in r.prints:
            if t != "WALK":
                continue
            k = (p["b"], p["buf"], tuple(p["a"]))
            if k in seen:           # -simulate prints a state once per generation
                continue
            seen.add(k)
            cases.append(p)
        if not cases:
            raise core.MachineryError("no WALK lines emitted by %s" % j["label"])
        r.prints = None
        r.stdout = ""
        res = core.pmap(replay_walk, cases, chunk=500)
        for c, bad in zip(cases, res):
            nontriv = len(set(c["e"])) > 1 or c["h"] > 0
            ctx.case(_hkey(c["b"], c["buf"], tuple(c["a"])) if nontriv else None,
                     sample=c if (nontriv and 2 < len(c["a"]) < 6 and c["h"] > 0) else None)
            ctx.traces += 1
            for key, detail in bad:
                report({"kind": "walk", "case": c, "detail": detail,
                        "how": "rotamer._rotamers(angles, hard_boundaries, buffer_width) vs Rotamer.tla `out` "
                               "(definition machine); angles/buffer in half-degrees in `case`"}, key)
            # every walk also becomes a column for the library callers (bounded per group)
            gk = (c["buf"], len(c["a"]))
            g = groups.setdefault(gk, {1: [], 2: [], 3: []})
            if len(g[c["b"]]) < 4000:
                g[c["b"]].append(c)
        st["n_walks"] += len(cases)

    glist = []
    for (buf, n), g in sorted(groups.items()):
        m = max(len(v) for v in g.values())
        for s in range(0, m, 400):
            part = {str(b): v[s:s + 400] for b, v in g.items() if v[s:s + 400]}
            glist.append({"buf": buf, "n": n, "cases": part})
            glist.append({"buf": buf, "n": n, "cases": part, "real_conversion": True})
    res = core.pmap(replay_group, glist, chunk=4)
    for g, bad in zip(glist, res):
        st["ncols"] += sum(len(v) for v in g["cases"].values())
        ctx.evaluations += 1
        for key, detail in bad:
            report({"kind": "group", "group": {"buf": g["buf"], "n": g["n"], "real_conversion": bool(g.get("real_conversion"))},
                    "detail": detail,
                    "how": "phi_/psi_/chi_/all_rotamers with dihedral_angles replaced by the emitted angle table"}, key)

    # ---------------- replay transitions
    for j, kind, r in zip(jobs, meta, results):
        if kind != "trans":
            continue
        cases = [p for t, p in r.prints if t == "TRANS"]
        if not cases:
            raise core.MachineryError("no TRANS lines emitted by %s" % j["label"])
        r.prints = None
        r.stdout = ""
        res = core.pmap(replay_trans, cases, chunk=500)
        for c, bad in zip(cases, res):
            nontriv = not c["none"]
            ctx.case(_hkey("t", c["dim"], json.dumps(c["arr"])) if nontriv else None,
                     sample=c if (nontriv and c["dim"] == 2 and c["trailing"] > 0 and len(c["arr"]) > 2) else None)
            ctx.traces += 1
            for key, detail in bad:
                report({"kind": "trans", "case": c, "detail": detail,
                        "how": "disorder.transitions(array) vs Transitions.tla Def"}, key)
        st["n_tr"] += len(cases)
    # growth beyond the listed property: what the transition bookkeeping feeds -- the order/disorder pipeline of
    # cards/disorder.py (specs/geometry/Disorder.tla, which instantiates Transitions.tla)
    from props import x_disorder
    x_disorder.run_part(ctx)


def replay(ctx, path):
    rec = json.load(open(path))
    b = core.build_repo()
    core.activate(b)
    kind = rec.get("kind")
    if kind == "walk":
        bad = replay_walk(rec["case"])
    elif kind == "trans":
        bad = replay_trans(rec["case"])
    elif kind == "group":
        w = rec["detail"].get("case")
        if w is None:
            raise core.MachineryError("group record without a case cannot be replayed; re-run the check")
        cases_ = {str(w["b"]): [w]}
        feat = str(rec["detail"].get("via", "")).startswith("RotamerFeaturizer") or "all_rotamers" in str(rec.get("key", ""))
        if feat:
            # all_rotamers / the featurizer need a column of every dihedral type: the other types get a walk that rests
            # in the middle of basin 0 (60 degrees; psi is stored shifted by 100 degrees)
            nfr = rec["group"]["n"]
            for b_, nb_ in ((1, 2), (2, 2), (3, 3)):
                if str(b_) not in cases_:
                    cases_[str(b_)] = [{"b": b_, "a": [120] * nfr, "raw": [320] * nfr, "e": [0] * nfr, "i": [0] * nfr,
                                        "nb": nb_, "w": 0, "buf": rec["group"]["buf"], "h": 0}]
        bad = replay_group({"buf": rec["group"]["buf"], "n": rec["group"]["n"], "cases": cases_, "force_featurizer": feat,
                            "real_conversion": rec["group"].get("real_conversion", False)})
    else:
        raise core.MachineryError("model-level violation: re-run ./check C20 (%s)" % rec.get("cmd", ""))
    ctx.case(("replay",), sample=rec.get("case"))
    ctx.traces += 1
    for key, detail in bad:
        ctx.violation({"kind": kind, "case": rec.get("case"), "group": rec.get("group"), "detail": detail}, key=key)
