"""Recording executions of the real clustering code for Trace_Cluster.tla.

Instrumentation is injected from outside the repository:
  * kcenters._kcenters_iteration and kmedoids._kmedoids_pam_update are wrapped
    through their module attributes (the callers look them up on every call);
  * a logging.Handler on logger 'enspara.cluster.kmedoids' captures the DEBUG
    records 'Proposed new medoid (%s -> %s) for k=%s' and 'Accepted/Rejected
    proposed center for k=%s: cost ...' with their raw arguments;
  * the metric may be a recording callable.
Frames and labels are shifted to 1-based, distances are projected to the
specification's represented integers (exact for L1/Linf, squared for L2).
"""
import logging

import numpy as np

INF = 999999999
RUN_LIMIT = 40         # seconds per recorded execution


def linf(X, y):
    return np.abs(np.asarray(X, dtype=float) - np.asarray(y, dtype=float)).max(axis=1)


def metric_arg(name):
    return {"l1": "manhattan", "l2sq": "euclidean", "linf": linf}[name]


class ProjectionError(Exception):
    pass


def rep(dv, metric, scale=1.0):
    """float distances -> represented ints (raises if not on the lattice); the data were the lattice points
    multiplied by `scale`"""
    out = []
    for d in np.asarray(dv, dtype=float).reshape(-1):
        if np.isinf(d):
            out.append(INF)
            continue
        d = d / scale
        v = d * d if metric == "l2sq" else d
        r = int(round(v))
        if abs(v - r) > 1e-6 * max(1.0, abs(v)):
            raise ProjectionError("distance %r is not a lattice distance" % d)
        out.append(r)
    return out


def _idx(ci):
    return [int(i) + 1 for i in np.asarray(ci).reshape(-1)]


def _asg(a):
    return [int(x) + 1 for x in np.asarray(a).reshape(-1)]


class _PamHandler(logging.Handler):
    def __init__(self):
        super().__init__(level=logging.DEBUG)
        self.events = []
        self._pending = None

    def emit(self, record):
        m = record.msg
        if not isinstance(m, str):
            return
        try:
            if m.startswith("Proposed new medoid"):
                old, new, cid = record.args
                self._pending = {"old": int(old) + 1, "p": int(new) + 1, "cid": int(cid) + 1}
            elif m.startswith("Accepted proposed center") or m.startswith("Rejected proposed center"):
                cid, oc, nc = record.args
                e = dict(self._pending or {"old": 0, "p": 0, "cid": int(cid) + 1})
                e.update(ev="prop", accepted=m.startswith("Accepted"), oc=float(oc), nc=float(nc))
                self.events.append(e)
                self._pending = None
        except Exception:   # a reworded record: degrade to sweep granularity, never a verdict
            pass


def _costN(c, n, metric, scale=1.0):
    v = c / (scale * scale) * n
    r = int(round(v))
    if abs(v - r) > 1e-6 * max(1.0, abs(v)):
        return -1
    return r


def record(run):
    """run: dict(pts, metric, algo, form, k, cut, ti, init, sweeps, explicit, props, seed, dtype, warm)
    returns the trace record for Trace_Cluster.tla"""
    from enspara.cluster import kcenters as kc_mod, kmedoids as km_mod, hybrid as hy_mod
    from enspara.cluster import KCenters, KMedoids, KHybrid
    metric = run["metric"]
    pts = run["pts"]
    n = len(pts)
    # the algorithms are equivariant under scaling of the data (distances and radii scale along): the lattice
    # points are multiplied by a factor that rotates over the runs -- 1, a tiny one (where absolute float
    # tolerances would bite) and a large one; integer element types use integer factors
    dtn = run.get("dtype", "float64")
    scale = run.get("scale")
    if dtn.startswith("uint"):
        # unsigned storage (the callable metric; the named ones only to see that the refusal stays a refusal): the largest power of two that
        # keeps every coordinate inside the type, so that the top coordinates lie above the sign bit of the same width
        top = max([int(abs(v)) for p_ in pts for v in p_] + [1])
        scale = 1.0
        while top * scale * 2 <= np.iinfo(dtn).max:
            scale *= 2
    if scale is None:
        rot = (sum(int(abs(v)) for p_ in pts for v in p_) + 2 * n + run["k"] + run.get("sweeps", 0)) % 3
        # powers of two: every floating-point operation of the run then scales exactly, so the scaled run makes
        # bit-for-bit the decisions of the unscaled one (no new ties or tie-breaks at guard comparisons)
        scale = ((1.0, 2.0 ** -30, 4096.0) if dtn.startswith("float") else (1.0, 1.0, 1024.0))[rot]
    Xc = (np.array(pts, dtype="float64").reshape(n, -1) * scale).astype(dtn)
    # memory layout of the data rotates over the runs: C-ordered, Fortran-ordered, or a strided view into a larger
    # junk-filled buffer (the property quantifies over data sets, not over their layout)
    lay = run.get("layout")
    if lay is None:
        lay = ("C", "F", "view")[(int(np.abs(Xc).sum()) + n + run["k"] + len(run.get("init", []))) % 3]
    if lay == "F":
        X = np.asfortranarray(Xc)
    elif lay == "view":
        big = np.full((2 * n + 1, 2 * Xc.shape[1] + 1), 77, dtype=Xc.dtype)
        big[1::2, 1::2] = Xc
        X = big[1::2, 1::2]
    else:
        X = Xc
    X0 = X.copy()
    m = metric_arg(metric)
    events = []
    tr = {"pts": [list(p) for p in pts], "metric": metric, "algo": run["algo"], "k": run["k"], "cut": run["cut"],
          "ti": bool(run.get("ti", False)), "init": [i + 1 for i in run.get("init", [])],
          "sweeps": run.get("sweeps", 0), "props": [i + 1 for i in (run.get("props") or [])], "events": events,
          "form": run.get("form", "function"), "dtype": run.get("dtype", "float64"), "layout": lay, "scale": "%g" % scale, "seed": -1 if run.get("seed") is None else run.get("seed")}
    if run.get("initXY"):
        tr["initXY"] = [list(q) for q in run["initXY"]]
        tr["init"] = [0] * len(run["initXY"])
    cutf = None if run["cut"] == 0 else (float(np.sqrt(run["cut"])) if metric == "l2sq" else float(run["cut"])) * scale
    kk = None if run["k"] == 0 else run["k"]

    def state(ci, a, d):
        return {"ctrIdx": _idx(ci), "asg": _asg(a), "dist": rep(d, metric, scale)}

    first = {"kc": True, "pam": True}
    orig_iter = kc_mod._kcenters_iteration
    orig_pam = km_mod._kmedoids_pam_update
    handler = _PamHandler()
    klog = logging.getLogger("enspara.cluster.kmedoids")
    oldlevel = klog.level

    mute = {"on": False}      # True while the estimator's EARLIER fit (on other data) runs: nothing is recorded

    def w_iter(traj, distance_method, distances, assignments, center_inds, **kw):
        if mute["on"]:
            return orig_iter(traj, distance_method, distances, assignments, center_inds, **kw)
        if len(events) > 50 * n + 200:
            raise RuntimeError("k-centers is still iterating after %d recorded steps on %d frames" % (len(events), n))
        if first["kc"]:
            first["kc"] = False
            events.append(dict(state(center_inds, assignments, distances), ev="start"))
        out = orig_iter(traj, distance_method, distances, assignments, center_inds, **kw)
        new_center, d2, a2, ci2 = out
        events.append(dict(state(ci2, a2, d2), ev="iter", c=int(ci2[-1]) + 1))
        return out

    def w_pam(Xa, met, medoid_inds, assignments, distances, **kw):
        if mute["on"]:
            return orig_pam(Xa, met, medoid_inds, assignments, distances, **kw)
        if len(events) > 50 * n + 2000:
            raise RuntimeError("k-medoids is still sweeping after %d recorded steps on %d frames" % (len(events), n))
        if first["pam"] and run["algo"] == "kmedoids":
            events.append(dict(state(medoid_inds, assignments, distances), ev="pamstart"))
        if first["pam"] and run["algo"] == "hybrid":     # hand-over state = what k-centers returned
            st0 = state(medoid_inds, assignments, distances)
            st0["ctrXY"] = [list(pts[i - 1]) if 1 <= i <= n else [] for i in st0["ctrIdx"]]
            events.append(dict(st0, ev="kcdone"))
        first["pam"] = False
        n0 = len(handler.events)
        out = orig_pam(Xa, met, medoid_inds, assignments, distances, **kw)
        mi, d2, a2, coords = out
        props = handler.events[n0:]
        coarse = len(props) != len(np.asarray(mi).reshape(-1))
        if not coarse:
            for e in props:
                e = dict(e)
                e["oldN"] = _costN(e.pop("oc"), n, metric, scale)
                e["newN"] = _costN(e.pop("nc"), n, metric, scale)
                events.append(e)
        events.append(dict(state(mi, a2, d2), ev="sweep", coarse=coarse,
                           ctrXY=[[int(round(float(v) / scale)) for v in np.asarray(c).reshape(-1)] for c in coords]))
        return out

    watched = []          # (name, object handed to the entry point, private copy taken before the call)

    def watch(name, obj):
        watched.append((name, obj, obj.copy() if isinstance(obj, np.ndarray) else
                        [np.array(v, copy=True) if isinstance(v, np.ndarray) else v for v in obj]))
        return obj

    def unchanged(obj, cp):
        if isinstance(obj, np.ndarray):
            return np.array_equal(obj, cp)
        return len(obj) == len(cp) and all(np.array_equal(a_, b_) for a_, b_ in zip(obj, cp))

    shared = {}           # objects handed to BOTH executions of the run (the second one repeats the first)

    def used_before(est):
        """an estimator object is fit on OTHER data first (the frames in reverse order) and its attributes are read,
        as a caller re-using one estimator would; the fit that is recorded afterwards must not remember any of it"""
        if (n + run["k"] + run.get("sweeps", 0)) % 2:
            return
        mute["on"] = True
        try:
            est.fit(np.ascontiguousarray(X[::-1]))
            _ = (est.centers_, est.labels_, est.distances_, est.center_indices_)
        except Exception:
            pass
        finally:
            mute["on"] = False
            handler.events[:] = []

    def configured(cls, metric, **params):
        """every third estimator is first built with OTHER stopping parameters and then given the real ones through
        the public attributes / set_params, as a caller re-using a prototype (clone + set_params) would; fit must obey
        the parameters the object reports, not the ones it was born with"""
        sel = (n + (run["k"] or 0) + run.get("sweeps", 0) + len(params)) % 6
        if sel not in (1, 4):
            return cls(metric, **params)
        decoy = dict(params)
        for name, v in params.items():
            if name == "n_clusters":
                decoy[name] = (v or 0) + 2
            elif name == "cluster_radius":
                decoy[name] = (v if v is not None else 0.0) * 2 + 1.0
            elif name in ("n_iters", "kmedoids_updates"):
                decoy[name] = v + 1
        est = cls(metric, **decoy)
        changed = {k_: v for k_, v in params.items() if k_ != "random_state"}
        if sel == 1:
            for k_, v in changed.items():
                setattr(est, k_, v)
        else:
            est.set_params(**changed)
        return est

    def fitted(est):
        """the estimator's own view of its result (attributes), not the result_ tuple"""
        from enspara.cluster.util import ClusterResult
        return ClusterResult(center_indices=est.center_indices_, assignments=est.labels_, distances=est.distances_,
                             centers=est.centers_)

    def call():
        del watched[:]
        algo, form = run["algo"], run.get("form", "function")
        init = None if not run.get("init") else X[run["init"]]
        if run.get("initXY"):          # initial centers that are not frames of the data (k-centers only)
            init = np.array(run["initXY"], dtype="float64").reshape(len(run["initXY"]), -1) * scale
            if np.array_equal(init, np.rint(init)) or not dtn.startswith(("int", "uint")):
                init = init.astype(dtn)           # (fractional centers next to integer data stay floats)
        if init is not None:
            # half of the warm starts hand the centers over as a Python list of rows -- the SAME list object in the
            # repeated execution, as a caller who keeps its seed centers around would
            if (n + run["k"] + len(init)) % 2 == 0:
                if "init" not in shared:
                    shared["init"] = [row for row in init]
                init = shared["init"]
            init = watch("init_centers", init)
        if algo == "kcenters":
            if form == "estimator":
                est = configured(KCenters, m, n_clusters=kk, cluster_radius=cutf)
                used_before(est)
                est.fit(X, init_centers=init) if init is not None else est.fit(X)
                return fitted(est)
            return kc_mod.kcenters(X, m, n_clusters=kk, dist_cutoff=cutf, init_centers=init,
                                   use_triangle_inequality=bool(run.get("ti", False)))
        if algo == "kmedoids":
            kw = {}
            if run.get("init"):
                if run.get("warm") == "assignments":
                    from enspara.cluster import util
                    a, d = util.assign_to_nearest_center(X, X[run["init"]], util._get_distance_method(m))
                    kw.update(assignments=watch("assignments", a), distances=watch("distances", d))
                elif run.get("warm") == "pairs":
                    # centers as (trajectory, frame) pairs of a data set cut into two trajectories, in the caller's
                    # order, together with the labels and distances of exactly that state
                    from enspara.cluster import util
                    cutp = max(1, n // 2)
                    lens = [cutp, n - cutp] if n > cutp else [n]
                    pairs = [(0, i) if i < cutp else (1, i - cutp) for i in run["init"]]
                    a, d = util.assign_to_nearest_center(X, X[run["init"]], util._get_distance_method(m))
                    kw.update(cluster_center_inds=watch("cluster_center_inds", pairs), X_lengths=lens,
                              assignments=watch("assignments", a), distances=watch("distances", d))
                else:
                    kw.update(cluster_center_inds=watch("cluster_center_inds", list(run["init"])))
            else:
                kw.update(n_clusters=kk)
            if form == "estimator":
                est = configured(KMedoids, m, n_clusters=kk, n_iters=run["sweeps"])
                used_before(est)
                est.fit(X, **{k_: v for k_, v in kw.items() if k_ != "n_clusters"})
                return fitted(est)
            if run.get("props") is not None:
                kw.update(proposals=watch("proposals", list(run["props"])))
            return km_mod.kmedoids(X, m, n_iters=run["sweeps"], random_state=run.get("seed"), **kw)
        if algo == "hybrid":
            if form == "estimator":
                est = configured(KHybrid, m, n_clusters=kk, cluster_radius=cutf, kmedoids_updates=run["sweeps"],
                                 random_state=run.get("seed"))
                used_before(est)
                est.fit(X, init_centers=init) if init is not None else est.fit(X)
                return fitted(est)
            kw = {}
            if kk is not None:
                kw["n_clusters"] = kk
            if cutf is not None:
                kw["dist_cutoff"] = cutf
            return hy_mod.hybrid(X, m, n_iters=run["sweeps"], init_centers=init, random_state=run.get("seed"), **kw)
        raise ValueError(algo)

    def result_state(res):
        ci = res.center_indices
        st = state(ci, res.assignments, res.distances)
        st["ctrXY"] = [[int(round(float(v) / scale)) for v in np.asarray(c, dtype=float).reshape(-1)] for c in res.centers]
        return st

    kc_mod._kcenters_iteration = w_iter
    km_mod._kmedoids_pam_update = w_pam
    klog.addHandler(handler)
    # one run in four keeps the logger at its production level: its sweeps are validated at sweep granularity (no
    # per-proposal records), and whatever the code does only when nobody is debugging is executed too
    import zlib
    if zlib.crc32(repr((run["pts"], run.get("init"), run.get("props"), run.get("seed"), run.get("sweeps"), run["k"])).encode()) % 4 != 3:
        klog.setLevel(logging.DEBUG)
    else:
        tr["production_log_level"] = True
    res = None
    # a run of these tiny inputs takes milliseconds; one that does not come back (a loop whose guard can no longer
    # fail) is an observation, not a reason for the harness to wait for ever
    import signal

    class RunTimeout(Exception):
        pass

    def _alarm(*a):
        raise RunTimeout("no result after %d s" % RUN_LIMIT)
    old_handler = signal.signal(signal.SIGALRM, _alarm)
    signal.alarm(RUN_LIMIT)
    try:
        try:
            res = call()
        except ProjectionError as ex:
            events.append({"ev": "raise", "msg": "projection: %s" % ex})
        except Exception as ex:
            if dtn.startswith("uint") and metric != "linf" and isinstance(ex, TypeError) and "No matching signature" in str(ex):
                # the compiled kernels have no unsigned variants: refusing the element type is an answer (see C13);
                # whatever is RETURNED for such data is judged like any other result
                tr["rejected_input"] = True
            else:
                events.append({"ev": "raise", "msg": "%s: %s" % (type(ex).__name__, str(ex)[:200])})
    finally:
        signal.alarm(0)
        signal.signal(signal.SIGALRM, old_handler)
        kc_mod._kcenters_iteration = orig_iter
        km_mod._kmedoids_pam_update = orig_pam
        klog.removeHandler(handler)
        klog.setLevel(oldlevel)
    if res is not None:
        try:
            st = result_state(res)
            if run["algo"] in ("kcenters", "hybrid"):
                # the k-centers stage's own result is the state when the loop ended; for plain
                # kcenters it is the returned result
                pass
            same = bool(np.array_equal(X, X0) and X.dtype == X0.dtype)
            changed = [nm for nm, obj, cp in watched if not unchanged(obj, cp)]
            if changed:
                same = False
                tr["inputs_changed"] = changed
            reproducible = True
            if run.get("seed") is not None or run.get("props") is not None or run["algo"] == "kcenters":
                first["kc"] = first["pam"] = False
                saved = list(events)
                try:
                    res2 = call()
                    st2 = result_state(res2)
                    reproducible = st2 == st
                except Exception:
                    reproducible = False
                del events[:]
                events.extend(saved)
            if run["algo"] == "kcenters":
                events.append(dict(st, ev="kcdone"))
            elif run["algo"] == "hybrid" and run["sweeps"] == 0:
                events.append(dict(st, ev="kcdone"))
            events.append(dict(st, ev="result", inputs_same=same, reproducible=bool(reproducible)))
        except ProjectionError as ex:
            events.append({"ev": "raise", "msg": "projection: %s" % ex})
    return tr
