"""C08 -- reactive flux obeys its definition and is conserved.

Spec: specs/tpt/Flux.tla (extends tpt/Committor.tla, common/Rational.tla).

TLC enumerates every connected symmetric integer matrix X in scope (the reversible
chain T = X / rowsum(X) with populations rowsum(X) / sum(X)) x every disjoint
non-empty source/sink pair, runs the committor pipeline and then the statements of
reactive_fluxes / net_fluxes / reactive_populations (scale rows by pi q-, scale
columns by q+, zero the diagonal, positive part of f - f^T, normalise pi q+ q-) in
exact rational arithmetic, checks FluxDef, NetOneDirection, Conservation,
NoInflowToSources, NoOutflowFromSinks, SourceOutEqSinkIn, PopsProbability (and the
input facts: stationarity, detailed balance, backward committor = 1 - forward) on all
of them, and prints the exact expected matrices.  The driver replays every printed
case into the real functions, populations given and None, dense / csr / lil / csc
containers, compares at 1e-9 relative and requires the inputs to be unchanged.
"""
import json
import os
import time
import warnings

import numpy as np

from harness import core
from props.c07 import snapshot, _mc_module, _violation, choose_containers, ALL_CONTAINERS, SMALL_HEAP

SPEC_DIR = os.path.join(core.SPECS, "tpt")
INVS = ["FTypeOK", "Solvable", "RatOK", "FRatOK",
        "PinnedSources", "PinnedSinks", "InUnit", "FirstStep", "MaskedEqualsRestricted", "SplitBySink",
        "GivenEqComputed", "DetailedBalance", "BackwardFirstStep",
        "FluxDef", "FluxNonNegative", "NetDef", "NetOneDirection", "Conservation", "NoInflowToSources",
        "NoOutflowFromSinks", "SourceOutEqSinkIn", "SomeFlux", "PopsProbability", "PopsDefinedIffReactive"]

# parts single-worker TLC processes per scope (check + emit in one pass); run: how many of them run
SCOPES = {
    "quick": [dict(N=3, MaxX=2, parts=4, run=4, coverage=True),   # + a coverage-statistics run on 1/16 of it
              dict(N=4, MaxX=1, parts=12, run=12, emit=8)],   # all 12 parts checked, 8 (by seed) replayed
    "thorough": [dict(N=3, MaxX=2, parts=1, run=1, coverage=True),
                 dict(N=3, MaxX=3, parts=6, run=6),
                 dict(N=4, MaxX=1, parts=6, run=6),
                 dict(N=4, MaxX=2, parts=120, run=4),      # 4/120 of ~49k chains x 50 pairs, chosen by the seed
                 dict(N=5, MaxX=1, parts=400, run=3)],     # 3/400 of ~27k chains x 180 pairs
}


if os.environ.get("VERIF_SMOKE"):      # a sub-scope of quick, for trying mutants on a busy machine
    SCOPES["quick"] = SCOPES["quick"][:1]


from props.c07 import _containers  # noqa: E402  (dense C / F / strided view, csr, lil, csc)


def _flat(rows):
    return [x for r in rows for x in r]


def _mismatch(got, exp, shape):
    """exp: flat list of [num, den]; got: ndarray / sparse matrix."""
    import scipy.sparse as sp
    try:
        g = got.toarray() if sp.issparse(got) else np.asarray(got)
        g = np.asarray(g, dtype=float)
    except Exception as ex:
        return "result not numeric: %s" % ex
    if g.shape != shape:
        return {"got_shape": list(g.shape), "expected_shape": list(shape)}
    g = g.ravel()
    for k, (x, (num, den)) in enumerate(zip(g, exp)):
        if not (np.isfinite(x) and core.close(float(x), num, den)):
            return {"flat_index": k, "got": g.tolist(), "expected": [a / b for a, b in exp]}
    return None


def replay_case(c):
    from enspara import tpt
    n = c["n"]
    den = np.array(c["den"], dtype=float)
    T = np.array(c["A"], dtype=float) / den[:, None]
    src = [s - 1 for s in c["src"]]
    snk = [s - 1 for s in c["snk"]]
    pops_given = np.array([a / b for a, b in c["pi"]])
    exp = {"reactive_fluxes": (_flat(c["fl"]), (n, n)),
           "net_fluxes": (_flat(c["net"]), (n, n)),
           "reactive_populations": (c["rp"], (n,))}
    bad, kinds = [], {}
    for cont, M in _containers(T):
        if cont not in c.get("containers", ALL_CONTAINERS):
            continue
        for pname, pops in (("given", pops_given), ("None", None)):
            for fname in ("reactive_fluxes", "net_fluxes", "reactive_populations"):
                e, shape = exp[fname]
                what = "%s %s populations=%s" % (fname, cont, pname)
                a_src, a_snk = np.array(src), np.array(snk)
                args = [M, a_src, a_snk] + ([pops] if pops is not None else [])
                before = [snapshot(a) for a in args]
                try:
                    with warnings.catch_warnings(), np.errstate(all="ignore"):
                        warnings.simplefilter("ignore")
                        got = getattr(tpt, fname)(M, a_src, a_snk, populations=pops)
                except Exception as ex:
                    if fname == "net_fluxes" and not cont.startswith("dense"):
                        key = "net_fluxes/sparse/raises"
                    else:
                        key = "%s/%s/raises-%s" % (fname, cont, type(ex).__name__)
                    bad.append({"key": key, "call": what, "detail": "raised %s: %s" % (type(ex).__name__, ex)})
                    continue
                if [snapshot(a) for a in args] != before:
                    bad.append({"key": "%s/%s/input-modified" % (fname, cont), "call": what,
                                "detail": "an argument was modified by the call"})
                kinds["%s/%s" % (fname, cont)] = type(got).__name__
                if fname == "reactive_populations" and not e:
                    continue        # no state strictly between the sets: 0/0, outside the property
                mm = _mismatch(got, e, shape)
                if mm is not None:
                    bad.append({"key": "%s/%s/value" % (fname, cont), "call": what, "detail": mm})
    return {"bad": bad, "kinds": kinds}


def _report(ctx, c, bad):
    for b in bad:
        _violation(ctx, {"kind": "replay", "case": c, "call": b["call"], "detail": b["detail"],
                         "how": "T = A / den[:, None] (A symmetric, den its row sums, states 1-based in the case), "
                                "populations = pi or None; tpt.%s vs the exact value printed by Flux.tla"
                                % b["call"].split()[0]},
                   key=b["key"])


def run(ctx):
    ctx.rule = ("TLC enumerates every connected symmetric integer matrix with entries 0..MaxX (self-weights "
                "included) on N states x every disjoint non-empty source/sink pair; each case is replayed with "
                "populations given and None, dense + sparse containers; distinct by (X, sources, sinks); non-trivial when some "
                "state lies strictly between the two sets in committor")
    ctx.assumptions += ["reversible chains T = X/rowsum(X); exact scope N <= 5 with at most 4 intermediate states",
                        "reactive_populations is not judged when no state has 0 < q+ < 1 (the code returns 0/0 there)",
                        "float64 inputs; containers ndarray, csr_matrix, lil_matrix, csc_matrix"]
    b = core.build_repo()
    core.activate(b)
    d = core.spec_tmp(SPEC_DIR)
    t0 = time.time()
    jobs, scs = [], []
    for si, sc in enumerate(SCOPES[ctx.tier]):
        mod = _mc_module(d, "MCF%d" % si, modes=("flux",), lags=((1, 1),), base="Flux")
        first = ctx.seed % sc["parts"]
        if sc.get("coverage"):        # TLC's -coverage costs ~3x: collect action counts on a 1/16 slice
            cfg = core.write_cfg(os.path.join(d, "mcf%d_cov.cfg" % si), init="FInit", next_="FNext", invariants=INVS,
                                 constants=dict(N=sc["N"], D=1, MaxX=sc["MaxX"], Part=ctx.seed % 16, Parts=16,
                                                Emit="FALSE", EmitF="FALSE", Chains="<- MCChains",
                                                Lags="<- MCLags", Modes="<- MCModes"))
            scs.append(None)
            jobs.append(dict(module=mod, cfg=os.path.basename(cfg), cwd=d, workers=1, timeout=1500, coverage=True, java_opts=SMALL_HEAP,
                             label="N=%d MaxX=%d 1/16 slice, action coverage" % (sc["N"], sc["MaxX"])))
        for k in range(sc["run"]):
            p = (first + k * max(1, sc["parts"] // sc["run"])) % sc["parts"]
            emit = k < sc.get("emit", sc["run"])
            cfg = core.write_cfg(os.path.join(d, "mcf%d_%d.cfg" % (si, p)), init="FInit", next_="FNext",
                                 invariants=INVS + (["EmitFInv"] if emit else []),
                                 constants=dict(N=sc["N"], D=1, MaxX=sc["MaxX"], Part=p, Parts=sc["parts"],
                                                Emit="FALSE", EmitF="TRUE" if emit else "FALSE", Chains="<- MCChains",
                                                Lags="<- MCLags", Modes="<- MCModes"))
            scs.append(sc if emit else None)
            jobs.append(dict(module=mod, cfg=os.path.basename(cfg), cwd=d, workers=1, timeout=3600, java_opts=SMALL_HEAP,
                             label="N=%d MaxX=%d part %d/%d check%s" % (sc["N"], sc["MaxX"], p, sc["parts"],
                                                                        "+emit" if emit else "")))
        if sc.get("emit", sc["run"]) < sc["parts"]:
            ctx.exhaustive = False
    results = ctx.tlc_parallel(jobs, max_par=16)
    t1 = time.time()
    ncases, kinds, undefined = 0, {}, 0
    for r, j, sc in zip(results, jobs, scs):
        if sc is None:
            if j.get("coverage") and not r.coverage:
                raise core.MachineryError("no coverage statistics from %s" % j["label"])
            continue
        cases = [p for t, p in r.prints if t == "CASE"]
        if not cases:
            if sc["parts"] <= 16:
                raise core.MachineryError("no CASE lines emitted by %s" % j["label"])
            continue                      # a thin slice of a large scope may be empty
        ncases += len(cases)
        choose_containers(cases, ctx.tier)
        res = core.pmap(replay_case, cases, chunk=100)
        for c, rr in zip(cases, res):
            key = (str(c["A"]), str(c["src"]), str(c["snk"]))
            nt = bool(c["rp"])
            undefined += 0 if nt else 1
            ctx.case(key if nt else None, sample=c if nt and len(c["snk"]) > 1 and len(c["src"]) > 1 else None)
            ctx.traces += 1
            for k, v in rr["kinds"].items():
                kinds.setdefault(k, set()).add(v)
            _report(ctx, c, rr["bad"])
    if ncases == 0:
        raise core.MachineryError("no case was emitted")
    ctx.notes["replayed_cases"] = ncases
    ctx.notes["cases_with_undefined_reactive_populations"] = undefined
    ctx.notes["result_container_types"] = {k: sorted(v) for k, v in sorted(kinds.items())}
    ctx.notes["wall_s_tlc_replay"] = [round(t1 - t0, 1), round(time.time() - t1, 1)]


def replay(ctx, path):
    rec = json.load(open(path))
    b = core.build_repo()
    core.activate(b)
    if rec.get("kind") == "replay":
        rr = replay_case(rec["case"])
        ctx.case(("replay",), sample=rec["case"])
        _report(ctx, rec["case"], rr["bad"])
    else:
        print("replay of %s records re-runs the check" % rec.get("kind"))
        run(ctx)
