"""C08 -- reactive flux obeys its definition and is conserved.

Spec: specs/tpt/Flux.tla (extends tpt/Committor.tla, common/Rational.tla).

TLC enumerates every connected symmetric integer matrix X in scope (the reversible
chain T = X / rowsum(X) with populations rowsum(X) / sum(X)) x every disjoint
non-empty source/sink pair, runs the committor pipeline and then the statements of
reactive_fluxes / net_fluxes / reactive_populations (scale rows by pi q-, scale
columns by q+, zero the diagonal, positive part of f - f^T, normalise pi q+ q-) in
exact rational arithmetic, checks FluxDef, NetOneDirection, Conservation,
NoInflowToSources, NoOutflowFromSinks, SourceOutEqSinkIn, PopsProbability (and the
input facts: stationarity, detailed balance, backward committor = 1 - forward) on all
of them, and prints the exact expected matrices.  The driver replays every printed
case into the real functions, populations given and None, dense / csr / lil / csc
containers, compares at 1e-9 relative PER ENTRY and requires the inputs to be
unchanged; every case is replayed a third time with the populations multiplied by
2^-30 (PopulationScaling / ScalingLaw: all fluxes scale by 2^-30, below 1e-8) and
with another listing (order, integer container) of the source and sink sets.

Spec: specs/tpt/LineFlux.tla (extends LineChain.tla, BigNat.tla): chains on a line
with ~1000 states, and small ones whose weights span up to 8 orders of magnitude
(forward and backward flux agreeing to 2e-6 of their size with a real net flux; net
fluxes of 1e-9), exact values over BigNat; same invariants, same replay with ndarray
(C / F), csr, csc, lil, coo, dok, csr_array, lil_array containers.
"""
import json
import os
import time
import warnings

import numpy as np

from harness import core
from props.c07 import (snapshot, _mc_module, _violation, choose_containers, ALL_CONTAINERS, SMALL_HEAP, FORMS, TOL,
                       rel_mismatch, _describe, _form_snapshot, single_thread, big, br_vec, line_matrix,
                       line_containers, line_cases, line_module, LINE_CONSTANTS, LINE_SIZES, LINE_SMALL, LINE_JAVA,
                       _replay_line_results)

SPEC_DIR = os.path.join(core.SPECS, "tpt")
INVS = ["FTypeOK", "Solvable", "RatOK", "FRatOK",
        "PinnedSources", "PinnedSinks", "InUnit", "FirstStep", "MaskedEqualsRestricted", "SplitBySink",
        "GivenEqComputed", "DetailedBalance", "BackwardFirstStep",
        "FluxDef", "FluxNonNegative", "NetDef", "NetOneDirection", "Conservation", "NoInflowToSources",
        "NoOutflowFromSinks", "SourceOutEqSinkIn", "SomeFlux", "PopsProbability", "PopsDefinedIffReactive",
        "PopulationScaling"]

# parts single-worker TLC processes per scope (check + emit in one pass); run: how many of them run
SCOPES = {
    "quick": [dict(N=3, MaxX=2, parts=4, run=4, coverage=True),   # + a coverage-statistics run on 1/16 of it
              dict(N=4, MaxX=1, parts=12, run=12, emit=8)],   # all 12 parts checked, 8 (by seed) replayed
    "thorough": [dict(N=3, MaxX=2, parts=1, run=1, coverage=True),
                 dict(N=3, MaxX=3, parts=6, run=6),
                 dict(N=4, MaxX=1, parts=6, run=6),
                 dict(N=4, MaxX=2, parts=120, run=4),      # 4/120 of ~49k chains x 50 pairs, chosen by the seed
                 dict(N=5, MaxX=1, parts=400, run=3)],     # 3/400 of ~27k chains x 180 pairs
}


if os.environ.get("VERIF_SMOKE"):      # a sub-scope of quick, for trying mutants on a busy machine
    SCOPES["quick"] = SCOPES["quick"][:1]


from props.c07 import _containers  # noqa: E402  (dense C / F / strided view, csr, lil, csc)


def _flat(rows):
    return [x for r in rows for x in r]


POPSCALE = 2.0 ** -30     # Flux.tla / LineFlux.tla ScalingLaw: fluxes and net fluxes are homogeneous of degree one in
                          # the populations handed in, reactive populations of degree zero; a power of two scales
                          # floating-point numbers exactly, and 2^-30 puts every flux of the small scopes below 1e-8


def _mismatch(got, exp, shape, factor=1.0, tol=TOL):
    """exp: flat list of [num, den] or a float array; got: ndarray / sparse matrix; entries are compared RELATIVELY
    (c07.rel_mismatch: tol per entry + a floor of a tenth of tol times the largest expected entry)."""
    import scipy.sparse as sp
    try:
        g = got.toarray() if sp.issparse(got) else np.asarray(got)
        g = np.asarray(g, dtype=float)
    except Exception as ex:
        return "result not numeric: %s" % ex
    if g.shape != shape:
        return {"got_shape": list(g.shape), "expected_shape": list(shape)}
    if isinstance(exp, np.ndarray):
        e = exp * factor
    else:
        e = np.array([a / b for a, b in exp], dtype=float).reshape(shape) * factor
    idx = rel_mismatch(g, e, tol)
    return None if idx is None else _describe(g, e, idx)


def _call_flux(bad, kinds, fname, cont, what, M, f_src, f_snk, pops, e, shape, factor=1.0, tol=TOL, judge=True):
    """one call of tpt.<fname>; appends mismatch records to bad"""
    from enspara import tpt
    args = [M, f_src, f_snk] + ([pops] if pops is not None else [])
    before = [_form_snapshot(a) for a in args]
    try:
        with warnings.catch_warnings(), np.errstate(all="ignore"):
            warnings.simplefilter("ignore")
            # given populations go in by keyword or, as the signature (tprob, sources, sinks, populations) allows, as
            # the fourth positional argument
            if pops is not None and (len(cont) + len(fname) + len(what)) % 2:
                got = getattr(tpt, fname)(M, f_src, f_snk, pops)
            else:
                got = getattr(tpt, fname)(M, f_src, f_snk, populations=pops)
    except Exception as ex:
        if fname == "net_fluxes" and not cont.startswith("dense"):
            key = "net_fluxes/sparse/raises"
        else:
            key = "%s/%s/raises-%s" % (fname, cont, type(ex).__name__)
        bad.append({"key": key, "call": what, "detail": "raised %s: %s" % (type(ex).__name__, ex)})
        return
    if [_form_snapshot(a) for a in args] != before:
        bad.append({"key": "%s/%s/input-modified" % (fname, cont), "call": what,
                    "detail": "an argument was modified by the call"})
    kinds["%s/%s" % (fname, cont)] = type(got).__name__
    if not judge:
        return
    mm = _mismatch(got, e, shape, factor, tol)
    if mm is not None:
        bad.append({"key": "%s/%s/value" % (fname, cont), "call": what, "detail": mm})


def replay_case(c):
    n = c["n"]
    den = np.array(c["den"], dtype=float)
    T = np.array(c["A"], dtype=float) / den[:, None]
    src = [s - 1 for s in c["src"]]
    snk = [s - 1 for s in c["snk"]]
    pops_given = np.array([a / b for a, b in c["pi"]])
    exp = {"reactive_fluxes": (_flat(c["fl"]), (n, n)),
           "net_fluxes": (_flat(c["net"]), (n, n)),
           "reactive_populations": (c["rp"], (n,))}
    bad, kinds = [], {}
    formname, form = FORMS[c.get("form", 0) % len(FORMS)]
    for cont, M in _containers(T):
        if cont not in c.get("containers", ALL_CONTAINERS):
            continue
        # populations given / None with sources and sinks as sorted arrays; given again with another order / integer
        # container of the same sets; populations scaled by 2^-30 (all results but reactive_populations scale too)
        for pname, pops, factor, fsrc, fsnk in (("given", pops_given, 1.0, np.array, np.array),
                                                ("None", None, 1.0, np.array, np.array),
                                                ("given*2^-30 sets as %s" % formname, pops_given * POPSCALE, POPSCALE,
                                                 form, form)):
            for fname in ("reactive_fluxes", "net_fluxes", "reactive_populations"):
                e, shape = exp[fname]
                what = "%s %s populations=%s" % (fname, cont, pname)
                judge = not (fname == "reactive_populations" and not e)
                # (no state strictly between the sets: 0/0, outside the property)
                if factor != 1.0 and fname != "net_fluxes" and cont != "dense":
                    continue          # scaled populations: all three functions for the C-ordered ndarray, net_fluxes
                                      # (which calls reactive_fluxes) for the other containers
                _call_flux(bad, kinds, fname, cont, what, M, fsrc(src), fsnk(snk), pops, e, shape,
                           factor=1.0 if fname == "reactive_populations" else factor, judge=judge)
    return {"bad": bad, "kinds": kinds}


# ------------------------------------------------------------------ LineFlux.tla: large chains, stiff chains

LINE_FLUX_INVS = ["ChainOK", "RangeOK", "PinnedSources", "PinnedSinks", "InUnit", "FirstStep", "BackwardFirstStep",
                  "FluxDef", "NetDef", "NetOneDirection", "Conservation", "NoInflowToSources", "NoOutflowFromSinks",
                  "SourceOutEqSinkIn", "SomeFlux", "PopsProbability", "PopsDefinedIffReactive", "ScalingLaw"]
TWO30 = 2 ** 30
TOL_STIFF = 1e-8         # chains whose weights span >= 4 orders of magnitude (condition number of the committor system
TOL_STIFF_NONE = 1e-5    # ~ that span; measured 1.4e-10), and with populations=None (eigenvector of the code: 9e-8)
TOL_LARGE_NONE = 1e-6    # ~1000 states, populations=None: dense / ARPACK eigenvector of the code (measured 1e-8)


def stiff_cases(first_id):
    """small chains with parameters of very different magnitude (1-based states): K = weight of the fast edges"""
    out = []

    def add(n, wov, sov, src, snk, wpat=(1,), spat=(1,)):
        for pscale in ((1, 1), (1, TWO30)):
            out.append(dict(id=first_id + len(out), n=n, mode="flux", src=set(src), snk=set(snk), cols=set(), lag=(1, 1),
                            wpat=list(wpat), spat=list(spat), wov=sorted(wov.items()), sov=sorted(sov.items()),
                            pscale=pscale))
    for K in (250000, 1000000):
        # a metastable core of rapidly interconverting states between two slow exits: forward and backward flux
        # inside the core agree to 2/K of their size, their difference is the whole net flux
        add(6, {2: K, 3: K, 4: K}, {1: 4 * K, 6: 4 * K}, [1], [6])
        add(4, {2: K}, {1: 4 * K, 2: K, 3: K, 4: 4 * K}, [1], [4])
        # a rare state (weight 2) between fast blocks; two sources
        add(7, {1: K, 2: K, 5: K, 6: K}, {1: 5 * K, 7: 3 * K}, [1, 2], [7])
        # source in the middle of the core, sinks on both sides
        add(8, {3: K, 4: K, 5: K}, {1: 2 * K, 8: 3 * K}, [4], [1, 8])
    # two basins of weight 1e8 and a thin bridge: every net flux is 1.25e-9 for the stationary probabilities
    add(6, {}, {1: 10 ** 8, 6: 10 ** 8}, [1], [6], wpat=(1, 2, 1), spat=(0, 1))
    add(7, {}, {1: 10 ** 8, 4: 3 * 10 ** 7, 7: 10 ** 8}, [7], [1, 2], wpat=(2, 1), spat=(1, 0, 0))
    return out


def _line_flux_jobs(ctx, d):
    jobs = []
    cfg = core.write_cfg(os.path.join(d, "lineflux.cfg"), init="FInit", next_="FNext",
                         invariants=LINE_FLUX_INVS + ["EmitFInv"],
                         constants=dict(LINE_CONSTANTS, Emit="FALSE", EmitF="TRUE"))
    nid = 1
    for n in LINE_SIZES[ctx.tier]:
        cases = line_cases([n], ["flux"], [(1, 1)], first_id=nid)
        cases[1]["pscale"] = (1, TWO30)
        nid += len(cases)
        if ctx.tier == "quick" and n != 1000:
            # both placements at 1000 states; 999 and 1200 with scaled populations, 1001 with the stationary
            # probabilities (populations=None is replayed for those: below 1000 states the code densifies before
            # its eigen-decomposition, as for the small chains; from 1000 on it uses a sparse solver)
            cases = cases[:1] if n == 1001 else cases[1:]
        for c in cases:                     # one process per large case
            k = 0 if tuple(c["pscale"]) == (1, 1) else 1
            mod = line_module(d, "MCLineFlux%d_%d" % (n, k), [c], base="LineFlux")
            jobs.append(dict(module=mod, cfg=os.path.basename(cfg), cwd=d, workers=1, timeout=1800,
                             java_opts=LINE_JAVA, label="line chain n=%d placement %d pscale=%s, check+emit"
                             % (n, k, "/".join(map(str, c["pscale"])))))
    stiff = stiff_cases(nid)
    mod = line_module(d, "MCLineFluxStiff", stiff, base="LineFlux")
    jobs.append(dict(module=mod, cfg=os.path.basename(cfg), cwd=d, workers=1, timeout=1800, java_opts=LINE_JAVA,
                     label="stiff line chains (%d cases), check+emit" % len(stiff)))
    mod = line_module(d, "MCLineFluxSmall", [], small_ns=LINE_SMALL[ctx.tier], modes=("flux",), base="LineFlux")
    jobs.append(dict(module=mod, cfg=os.path.basename(cfg), cwd=d, workers=1, timeout=1800, java_opts=LINE_JAVA,
                     coverage=True, label="line chains n in %s, every placement, check+emit+action coverage"
                     % (list(LINE_SMALL[ctx.tier]),)))
    return jobs


def replay_line_flux_case(c):
    with single_thread():
        return _replay_line_flux_case(c)


def _replay_line_flux_case(c):
    """Replays one CASE of LineFlux.tla: tridiagonal expected matrices from the printed diagonals."""
    n = c["n"]
    T = line_matrix(c)
    src = [x - 1 for x in c["src"]]
    snk = [x - 1 for x in c["snk"]]
    pops = br_vec(c["pops"])
    up, dn = (np.arange(n - 1), np.arange(1, n)), (np.arange(1, n), np.arange(n - 1))
    e_fl, e_net = np.zeros((n, n)), np.zeros((n, n))
    e_fl[up], e_fl[dn] = br_vec(c["fu"]), br_vec(c["fd"])
    e_net[up], e_net[dn] = br_vec(c["nu"]), br_vec(c["nd"])
    exp = {"reactive_fluxes": (e_fl, (n, n)), "net_fluxes": (e_net, (n, n)),
           "reactive_populations": (br_vec(c["rp"]) if c["rp"] else None, (n,))}
    weights = [x for x in c["w"][:n - 1] + c["s"] if x > 0]
    stiff = max(weights) >= 10 ** 4 * min(weights)
    large = n > 64
    tol = TOL_STIFF if stiff else TOL
    tol_none = TOL_STIFF_NONE if stiff else (TOL_LARGE_NONE if large else TOL)
    unscaled = tuple(c["pscale"]) == (1, 1)
    bad, kinds = [], {}
    for ci, (cont, M) in enumerate(line_containers(T)):
        formname, form = FORMS[(c["id"] + ci) % len(FORMS)]
        for fname in ("reactive_fluxes", "net_fluxes", "reactive_populations"):
            e, shape = exp[fname]
            what = "%s %s n=%d populations=%s x stationary, sets as %s" % (fname, cont, n, "/".join(map(str, c["pscale"])),
                                                                         formname)
            _call_flux(bad, kinds, fname, cont, what, M, form(src), form(snk), pops, e, shape, tol=tol,
                       judge=e is not None)
            # populations=None makes the code compute the stationary probabilities itself (an eigenvector: once per
            # call; for the large chains only some of the calls)
            if unscaled and (not large or cont == "dense" or (cont in ("csr", "lil") and fname == "net_fluxes")):
                _call_flux(bad, kinds, fname, cont, "%s %s n=%d populations=None" % (fname, cont, n), M, np.array(src),
                           np.array(snk), None, e, shape, tol=tol_none, judge=e is not None)
    return bad


def _report_line(ctx, c, bad):
    for b in bad:
        _violation(ctx, {"kind": "replay", "case": c, "call": b["call"], "detail": b["detail"],
                         "how": "T = X / rowsum(X), X tridiagonal symmetric with X[k][k+1] = w[k], X[i][i] = s[i] "
                                "(states 1-based in the case, numbers are base-4096 digit lists [numerator, "
                                "denominator]), populations = pops; fu/fd (nu/nd): (net) flux i -> i+1 / i+1 -> i; "
                                "tpt.%s vs the exact value printed by LineFlux.tla" % b["call"].split()[0]},
                   key=b["key"])


def _report(ctx, c, bad):
    for b in bad:
        _violation(ctx, {"kind": "replay", "case": c, "call": b["call"], "detail": b["detail"],
                         "how": "T = A / den[:, None] (A symmetric, den its row sums, states 1-based in the case), "
                                "populations = pi or None; tpt.%s vs the exact value printed by Flux.tla"
                                % b["call"].split()[0]},
                   key=b["key"])


def many_sinks_part(ctx):
    """clauses NetDef / NetOneDirection / Conservation / NoInflowIntoSources / NoOutflowFromSinks / source outflow =
    sink inflow of LineFlux.tla on the chain of c07.many_sinks_case() (5200 states, 3333 sinks): no exact expectation at
    this size, the clauses are evaluated in floating point on what the real code returns"""
    from enspara import tpt
    from props import c07
    c = c07.many_sinks_case("flux")
    n = c["n"]
    c["w"] = [c["wpat"][k % len(c["wpat"])] for k in range(n)]
    c["s"] = [c["spat"][k % len(c["spat"])] for k in range(n)]
    T = line_matrix(c)
    w, s_ = np.array(c["w"][:n - 1], dtype=float), np.array(c["s"], dtype=float)
    den = s_.copy()
    den[:-1] += w
    den[1:] += w
    pi = den / den.sum()
    src = sorted(x - 1 for x in c["src"])
    snk = sorted(x - 1 for x in c["snk"])
    inter = np.setdiff1d(np.arange(n), src + snk)
    with single_thread():
        ctx.case(("many-sinks", "dense"))
        ctx.traces += 1
        try:
            F = np.asarray(tpt.reactive_fluxes(T, src, snk, populations=pi), dtype=float)
            Nf = np.asarray(tpt.net_fluxes(T, src, snk, populations=pi), dtype=float)
        except Exception as ex:
            _violation(ctx, {"kind": "replay", "call": "reactive_fluxes / net_fluxes (%d states, %d sinks)" % (n, len(snk)),
                             "detail": "raised %s: %s" % (type(ex).__name__, str(ex)[:200])}, key="net_fluxes/dense/many-sinks/raised")
            return
    total = Nf[src].sum()
    scale = max(total, 1e-300)
    out_, in_ = Nf.sum(axis=1), Nf.sum(axis=0)
    checks = {"NetDef": np.abs(Nf - np.maximum(F - F.T, 0)).max() / scale,
              "NetOneDirection": np.minimum(Nf, Nf.T).max() / scale,
              "Conservation": np.abs(out_[inter] - in_[inter]).max() / scale,
              "NoInflowIntoSources": np.abs(in_[src]).max() / scale,
              "NoOutflowFromSinks": np.abs(out_[snk]).max() / scale,
              "SourceOutflowIsSinkInflow": abs(total - in_[snk].sum()) / scale,
              "SomeFlux": 0.0 if total > 0 else 1.0}
    for name, dev in checks.items():
        if not dev <= 1e-9:
            _violation(ctx, {"kind": "replay", "call": "net_fluxes / reactive_fluxes", "clause": name,
                             "deviation_relative_to_total_flux": float(dev), "total_flux": float(total),
                             "chain": "c07.many_sinks_case(): %d states on a line, sources 1..5, %d sinks" % (n, len(snk)),
                             "how": "LineFlux.tla clause evaluated in floating point on the returned matrices"},
                       key="net_fluxes/dense/many-sinks/%s" % name)
    ctx.notes["many_sinks_case"] = {"states": n, "sinks": len(snk), "total_flux": float(total)}


def run(ctx):
    ctx.rule = ("TLC enumerates every connected symmetric integer matrix with entries 0..MaxX (self-weights "
                "included) on N states x every disjoint non-empty source/sink pair; each case is replayed with "
                "populations given and None, dense + sparse containers; distinct by (X, sources, sinks); non-trivial when some "
                "state lies strictly between the two sets in committor; LineFlux.tla: 5 chains with 999..1200 "
                "states, 20 stiff chains with 4..8 states, every placement on 2..5 states, 9 containers")
    ctx.assumptions += ["LineFlux.tla: reversible nearest-neighbour chains with 999..1200 states, and small ones whose "
                        "weights span up to 8 orders of magnitude; values compared at %g relative per entry (+ %g of "
                        "the largest entry), %g for the chains with weights spanning >= 4 orders of magnitude; with "
                        "populations=None (eigenvector computed by the code) at %g / %g for the large / those chains"
                        % (TOL, 0.1 * TOL, TOL_STIFF, TOL_LARGE_NONE, TOL_STIFF_NONE),
                        "populations scaled by 2^-30 (ScalingLaw of LineFlux.tla): fluxes and net fluxes scale, "
                        "reactive populations do not",
                        "reversible chains T = X/rowsum(X); exact scope N <= 5 with at most 4 intermediate states",
                        "reactive_populations is not judged when no state has 0 < q+ < 1 (the code returns 0/0 there)",
                        "float64 inputs; containers ndarray, csr_matrix, lil_matrix, csc_matrix"]
    b = core.build_repo()
    core.activate(b)
    d = core.spec_tmp(SPEC_DIR)
    t0 = time.time()
    jobs, scs = [], []
    for si, sc in enumerate(SCOPES[ctx.tier]):
        mod = _mc_module(d, "MCF%d" % si, modes=("flux",), lags=((1, 1),), base="Flux")
        first = ctx.seed % sc["parts"]
        if sc.get("coverage"):        # TLC's -coverage costs ~3x: collect action counts on a 1/16 slice
            cfg = core.write_cfg(os.path.join(d, "mcf%d_cov.cfg" % si), init="FInit", next_="FNext", invariants=INVS,
                                 constants=dict(N=sc["N"], D=1, MaxX=sc["MaxX"], Part=ctx.seed % 16, Parts=16,
                                                Emit="FALSE", EmitF="FALSE", Chains="<- MCChains",
                                                Lags="<- MCLags", Modes="<- MCModes"))
            scs.append(None)
            jobs.append(dict(module=mod, cfg=os.path.basename(cfg), cwd=d, workers=1, timeout=1500, coverage=True, java_opts=SMALL_HEAP,
                             label="N=%d MaxX=%d 1/16 slice, action coverage" % (sc["N"], sc["MaxX"])))
        for k in range(sc["run"]):
            p = (first + k * max(1, sc["parts"] // sc["run"])) % sc["parts"]
            emit = k < sc.get("emit", sc["run"])
            cfg = core.write_cfg(os.path.join(d, "mcf%d_%d.cfg" % (si, p)), init="FInit", next_="FNext",
                                 invariants=INVS + (["EmitFInv"] if emit else []),
                                 constants=dict(N=sc["N"], D=1, MaxX=sc["MaxX"], Part=p, Parts=sc["parts"],
                                                Emit="FALSE", EmitF="TRUE" if emit else "FALSE", Chains="<- MCChains",
                                                Lags="<- MCLags", Modes="<- MCModes"))
            scs.append(sc if emit else None)
            jobs.append(dict(module=mod, cfg=os.path.basename(cfg), cwd=d, workers=1, timeout=3600, java_opts=SMALL_HEAP,
                             label="N=%d MaxX=%d part %d/%d check%s" % (sc["N"], sc["MaxX"], p, sc["parts"],
                                                                        "+emit" if emit else "")))
        if sc.get("emit", sc["run"]) < sc["parts"]:
            ctx.exhaustive = False
    ljobs = [] if os.environ.get("VERIF_SMOKE") else _line_flux_jobs(ctx, d)
    results = ctx.tlc_parallel(jobs + ljobs, max_par=16)
    results, line_results = results[:len(jobs)], results[len(jobs):]
    t1 = time.time()
    ctx.notes["replayed_line_cases"] = _replay_line_results(ctx, line_results, ljobs, replay_fn=replay_line_flux_case,
                                                           report=_report_line)
    ctx.notes["wall_s_line_replay"] = round(time.time() - t1, 1)
    many_sinks_part(ctx)
    t1 = time.time()
    ncases, kinds, undefined = 0, {}, 0
    for r, j, sc in zip(results, jobs, scs):
        if sc is None:
            if j.get("coverage") and not r.coverage:
                raise core.MachineryError("no coverage statistics from %s" % j["label"])
            continue
        cases = [p for t, p in r.prints if t == "CASE"]
        if not cases:
            if sc["parts"] <= 16:
                raise core.MachineryError("no CASE lines emitted by %s" % j["label"])
            continue                      # a thin slice of a large scope may be empty
        ncases += len(cases)
        choose_containers(cases, ctx.tier)
        res = core.pmap(replay_case, cases, chunk=100)
        for c, rr in zip(cases, res):
            key = (str(c["A"]), str(c["src"]), str(c["snk"]))
            nt = bool(c["rp"])
            undefined += 0 if nt else 1
            ctx.case(key if nt else None, sample=c if nt and len(c["snk"]) > 1 and len(c["src"]) > 1 else None)
            ctx.traces += 1
            for k, v in rr["kinds"].items():
                kinds.setdefault(k, set()).add(v)
            _report(ctx, c, rr["bad"])
    if ncases == 0:
        raise core.MachineryError("no case was emitted")
    ctx.notes["replayed_cases"] = ncases
    ctx.notes["cases_with_undefined_reactive_populations"] = undefined
    ctx.notes["result_container_types"] = {k: sorted(v) for k, v in sorted(kinds.items())}
    ctx.notes["wall_s_tlc_replay"] = [round(t1 - t0 - ctx.notes["wall_s_line_replay"], 1), round(time.time() - t1, 1)]


def replay(ctx, path):
    rec = json.load(open(path))
    b = core.build_repo()
    core.activate(b)
    if rec.get("kind") == "replay" and rec["case"].get("family") == "line":
        ctx.case(("replay",), sample=None)
        _report_line(ctx, rec["case"], replay_line_flux_case(rec["case"]))
    elif rec.get("kind") == "replay":
        rr = replay_case(rec["case"])
        ctx.case(("replay",), sample=rec["case"])
        _report(ctx, rec["case"], rr["bad"])
    else:
        print("replay of %s records re-runs the check" % rec.get("kind"))
        run(ctx)
