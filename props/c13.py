"""C13 -- distance kernels are exact for every dtype, memory layout and thread count.

Part 1 (specs/kernels/Dist.tla): configuration machine Validate / Dispatch / kernel loops / Return against the
definitions of the L1, L2 and Hamming distances.  TLC checks the machine (Exact, OutHoldsResult, Shape1D,
NoStrayWrite, RejectsBadInput, AcceptsGoodInput, ViewIsLogical, ...) and emits (a) every small matrix with its
expected distances, (b) every configuration with its expected outcome (ok / error / either), (c) the (length,
offset, strides) of every buffer layout.  The driver joins the three tables and replays the calls into the real
kernels in worker processes, one per OpenMP thread count (harness/dist_worker.py).  The set of supported
element types is not written down here: it is extracted from the fused types of the current libdist.pyx.

Part 2 (specs/kernels/Prange.tla): the memory-access table of the three kernels is extracted from the current
libdist.pyx (harness/extract/prange_access.py) and becomes the program of a shared-memory machine whose threads
interleave at single accesses; TLC decides RaceFree, ScheduleIndependent and InBounds for it.  The same
extractor + model is first run on harness/extract/prange_selftest.pyx, where the verdicts are known.
"""
import json
import os
import re
import subprocess

from harness import core
from harness.extract import prange_access as pa

SPEC_DIR = os.path.join(core.SPECS, "kernels")
KERNELS = ["euclidean", "manhattan", "hamming"]
ALL_DTYPES = ["int8", "int16", "int32", "int64", "uint8", "uint16", "uint32", "uint64", "float32", "float64",
              "bool", "float16", "complex128", "bigendian"]
GOOD_OUTS = ["none", "ok", "ok_guard", "ok_strided", "ok_neg"]
BAD_OUTS = ["f32", "i64", "long", "short", "col", "row", "zero_d"]
LAYOUTS = ["C", "F", "strided", "neg", "packed"]
ALL_VIAS = ["direct", "callable", "euclidean", "manhattan", "cityblock"]
ALL_UBITS = [0, 7, 8, 15, 16, 31, 32, 63, 64]
DIST_INVS = ["TypeOK", "ViewIsLogical", "Exact", "OutHoldsResult", "Shape1D", "NoStrayWrite", "RejectsBadInput",
             "AcceptsGoodInput", "KernelPreconditions", "RequiredSupported", "Homogeneous", "MetricSanity"]
PRANGE_INVS = ["TypeOK", "RaceFree", "ScheduleIndependent", "InBounds", "AllIterationsRun"]
SELFTEST = [("good_private", None), ("bad_shared_cell", "RaceFree"), ("bad_carried_scalar", "ScheduleIndependent"),
            ("bad_feature_parallel", "RaceFree"), ("bad_transposed", "InBounds"), ("bad_unchecked_length", "InBounds")]

TIERS = {
    "quick": dict(
        threads=[1, 2, 4, 16, 402, 8001], budget={1: None, 2: 14000, 4: 6000, 16: 3000, 402: 3000, 8001: 2000}, repeat_big=2,
        prange=dict(cmax={"n_samples": 3, "n_features": 2, "*": 2}, threads=3, salts=[1]),
        selftest=["good_private", "bad_shared_cell", "bad_carried_scalar", "bad_transposed"],
        vals=[dict(MinR=0, MaxR=3, MinF=1, MaxF=1, V=2), dict(MinR=0, MaxR=2, MinF=2, MaxF=2, V=1),
              dict(MinR=3, MaxR=3, MinF=2, MaxF=2, V=1, sample=900)],
        gen=dict(GenRows=[17, 40, 64], GenCols=[3, 5], NSeeds=2, V=2),
        wide=dict(GenRows=[2], GenCols=[130, 400], NSeeds=1, V=2),
        picks=2, picks_ext=1, picks_big=8, bad_stride=1,
        machine=[("compute: layouts x {none, ok_strided}", dict(DTypes=["int32"], Layouts=LAYOUTS, OutKinds=["none", "ok_strided"],
                                                                MinR=0, MaxR=2, MinF=1, MaxF=2, V=1)),
                 ("compute: C x all out kinds, listed + unlisted dtype", dict(DTypes=["int32", "bool"], Layouts=["C"], OutKinds=GOOD_OUTS,
                                                                              MinR=0, MaxR=2, MinF=1, MaxF=2, V=1)),
                 ("validation: every rank / width / out kind", dict(Vias=["direct", "cityblock"], DTypes=["int8", "float32", "bool"],
                                                                    YDts=["same", "other"], Layouts=["C", "neg"], OutKinds=GOOD_OUTS + BAD_OUTS,
                                                                    XRanks=[1, 2, 3], YRanks=[0, 1, 2], DWs=["same", "wider", "narrower"],
                                                                    DataMode="zero", MinR=2, MaxR=2, MinF=2, MaxF=2, V=1))]),
    "thorough": dict(
        threads=[1, 2, 3, 4, 8, 16, 402, 401, 1603, 8001],
        budget={1: None, 2: 150000, 3: 60000, 4: 60000, 8: 30000, 16: 20000, 402: 20000, 401: 10000, 1603: 10000, 8001: 10000}, repeat_big=20,
        prange=dict(cmax={"n_samples": 3, "n_features": 3, "*": 2}, threads=3, salts=[1, 2]),
        selftest=[k for k, _ in SELFTEST],
        vals=[dict(MinR=0, MaxR=4, MinF=1, MaxF=1, V=2), dict(MinR=0, MaxR=2, MinF=2, MaxF=2, V=1),
              dict(MinR=3, MaxR=3, MinF=2, MaxF=2, V=1), dict(MinR=2, MaxR=2, MinF=2, MaxF=2, V=2, sample=6000),
              dict(MinR=1, MaxR=1, MinF=3, MaxF=3, V=2)],
        gen=dict(GenRows=[17, 40, 64, 129, 257], GenCols=[3, 5, 8], NSeeds=3, V=2),
        wide=dict(GenRows=[2, 3], GenCols=[130, 400, 33000, 66000], NSeeds=1, V=2),
        picks=8, picks_ext=3, picks_big=40, bad_stride=1,
        machine=[("compute: layouts x out kinds", dict(DTypes=["int32", "bool"], Layouts=LAYOUTS, OutKinds=GOOD_OUTS,
                                                       MinR=0, MaxR=2, MinF=1, MaxF=2, V=1)),
                 ("compute: 3x2 and 2x3", dict(DTypes=["int32"], Layouts=["F", "strided"], OutKinds=["none", "ok_neg"],
                                              MinR=2, MaxR=3, MinF=2, MaxF=2, V=1)),
                 ("validation: every rank / width / out kind", dict(Vias=ALL_VIAS, DTypes=["int8", "uint8", "float32", "float64", "bool", "float16"],
                                                                    YDts=["same", "other"], Layouts=["C", "neg"], OutKinds=GOOD_OUTS + BAD_OUTS,
                                                                    XRanks=[1, 2, 3], YRanks=[0, 1, 2], DWs=["same", "wider", "narrower"],
                                                                    UBits=[0, 7], DataMode="zero", MinR=2, MaxR=2, MinF=2, MaxF=2, V=1))]),
}


def S(xs):
    return "{" + ", ".join(json.dumps(x) if isinstance(x, str) else str(x) for x in xs) + "}"


def dist_consts(**kw):
    base = dict(Kernels=KERNELS, Vias=["direct"], DTypes=["int32"], YDts=["same"], Layouts=["C"], OutKinds=["none"],
                XRanks=[2], YRanks=[1], DWs=["same"], UBits=[0], DataMode="all", MinR=1, MaxR=1, MinF=1, MaxF=1, V=1,
                GenRows=[], GenCols=[], NSeeds=0, Emit="no")
    base.update({k: v for k, v in kw.items() if k != "sample"})
    out = {"Supported": "<- SupportedDef"}
    for k, v in base.items():
        out[k] = S(v) if isinstance(v, list) else json.dumps(v) if isinstance(v, str) else str(v)
    return out


def named_coverage(r, module_file):
    """TLC reports the disjuncts `\\E t : Action(t)` of Next by their position; name them from the source"""
    lines = open(module_file).read().split("\n")
    cov = dict(r.coverage)
    for m in re.finditer(r"^<Next line \d+, col \d+ to line \d+, col \d+ of module \w+ \((\d+) \d+ \d+ \d+\)>: (\d+):(\d+)", r.stdout, re.M):
        src = lines[int(m.group(1)) - 1]
        nm = re.search(r":\s*(\w+)\(", src)
        if nm:
            cov[nm.group(1)] = cov.get(nm.group(1), 0) + int(m.group(3))
    return cov


def omp_env(t):
    """thread configurations: t < 100 is OMP_NUM_THREADS = t with a team of exactly that size; 100 a + b (402, 1603) asks
    for a threads under OMP_THREAD_LIMIT = b, so the team the runtime grants is SMALLER than omp_get_max_threads();
    8001 is 8 threads with OMP_DYNAMIC=true (the runtime chooses the team size by load)"""
    if t == 8001:
        return dict(OMP_NUM_THREADS="8", OMP_DYNAMIC="true")
    if t >= 100:
        return dict(OMP_NUM_THREADS=str(t // 100), OMP_THREAD_LIMIT=str(t % 100), OMP_DYNAMIC="false")
    return dict(OMP_NUM_THREADS=str(t), OMP_DYNAMIC="false")


def run_worker(build, job, threads, d, tag):
    jobf, resf = os.path.join(d, "job_%s.json" % tag), os.path.join(d, "res_%s.json" % tag)
    with open(jobf, "w") as fh:
        json.dump(job, fh)
    env = dict(os.environ, OMP_WAIT_POLICY="passive", PYTHONPATH="")
    env.pop("OMP_THREAD_LIMIT", None)
    env.update(omp_env(threads))
    p = subprocess.run([core.PY, os.path.join(core.VERIF, "harness", "dist_worker.py"), build, jobf, resf],
                       stdout=subprocess.PIPE, stderr=subprocess.PIPE, text=True, env=env, timeout=6000)
    if p.returncode < 0:
        return {"crash": -p.returncode, "stderr": p.stderr[-1500:]}
    if p.returncode != 0 or not os.path.exists(resf):
        raise core.MachineryError("dist worker (threads=%s) failed: %s" % (threads, p.stderr[-3000:]))
    return json.load(open(resf))


def site_of(cfg):
    return "libdist.%s" % cfg["kernel"] if cfg["via"] in ("direct", "callable") else "_get_distance_method(%s)" % cfg["via"]


def input_class(cfg):
    if cfg["expect"] == "error":
        parts = []
        if cfg["xrank"] != 2:
            parts.append("xrank=%d" % cfg["xrank"])
        if cfg["yrank"] != 1:
            parts.append("yrank=%d" % cfg["yrank"])
        if cfg["dw"] != "same":
            parts.append("y-" + cfg["dw"])
        if cfg["out"] in BAD_OUTS:
            parts.append("out=" + cfg["out"])
        return "bad-input:" + ",".join(parts)
    cls = cfg["dtype"] + ("" if cfg["ydt"] == "same" else "+other-y")
    if cfg["ubits"]:
        cls += "/extreme-2^%d" % cfg["ubits"]
    return cls


def plan_calls(tier, cases, cfgs, seed):
    """Join of the emitted tables: which (case, configuration) pairs are replayed.  A configuration applies to a
    case when the case's entries are representable (fields lo / hi / maxabs of both records)."""
    groups = {}
    bad = []
    for gi, g in enumerate(cfgs):
        if g["expect"] == "error":
            bad.append(gi)
        else:
            groups.setdefault((g["kernel"], g["dtype"], g["ubits"]), []).append(gi)
    gkeys = sorted(groups)
    calls = []
    for ci, c in enumerate(cases):
        mx = max(abs(c["lo"]), abs(c["hi"]))
        for gx, gk in enumerate(gkeys):
            members = groups[gk]
            g0 = cfgs[members[0]]
            if c["lo"] < g0["lo"] or c["hi"] > g0["hi"] or mx > g0["maxabs"]:
                continue
            n = len(members)
            k = tier["picks_big"] if c.get("big") else tier["picks_ext"] if gk[2] else tier["picks"]
            if k >= n:
                sel = range(n)
            else:
                start = (ci * 7 + gx * 3 + seed) % n
                step = max(1, n // k) | 1
                sel = sorted({(start + j * step) % n for j in range(k)})
            calls.extend((ci, members[j]) for j in sel)
    bad_cases = []
    seen = set()
    for ci, c in enumerate(cases):
        shp = (c["r"], c["f"])
        if shp in ((1, 1), (2, 2), (3, 2), (3, 1), (17, 3)) and shp not in seen and (c["r"] == 0 or max(c["l1"]) > 0) and c["lo"] >= 0:
            seen.add(shp)
            bad_cases.append(ci)
    bad_calls = [(ci, gi) for ci in bad_cases for gi in bad[::tier["bad_stride"]]]
    return calls, bad_calls


def run(ctx):
    tier = TIERS[ctx.tier]
    ctx.rule = ("Dist.tla: every configuration (kernel x entry point x dtype x layout x out kind x ranks x width x magnitude) and every "
                "matrix in scope through Validate/Dispatch/loops/Return (TLC); replay = TLC-emitted matrices x TLC-emitted configurations "
                "(rotating sample of the cross product in quick) x OpenMP thread counts; non-trivial = a row at non-zero distance or a "
                "rejected input.  Prange.tla: all interleavings of the extracted access table for <= 3 iterations x 3 threads")
    ctx.assumptions += ["the OpenMP runtime's actual schedules are not controllable: schedule independence is decided on the extracted access "
                        "table (sequentially consistent memory, single-access granularity) and sampled dynamically through OMP_NUM_THREADS",
                        "right-hand sides are uninterpreted in Prange.tla (Mix over Z_97); floating-point non-associativity is outside the model "
                        "(the kernels accumulate each row on one thread, which the table shows)",
                        "float comparison 1e-9 relative; float32 inputs only where float32 arithmetic is exact (|entries| <= 254)",
                        "Hamming with zero features (0/0) is outside the property"]
    b = core.build_repo()
    d = core.spec_tmp(SPEC_DIR)

    # ---- extraction from the current source -------------------------------------------------------------------
    try:
        mod = pa.extract(os.path.join(b, "enspara", "geometry", "libdist.pyx"))
        selfmod = pa.extract(os.path.join(core.VERIF, "harness", "extract", "prange_selftest.pyx"))
        supported = {k: pa.supported_dtypes(mod, k) for k in KERNELS}
    except (pa.ExtractError, KeyError) as ex:
        raise core.MachineryError("access-table extraction failed: %r" % (ex,))
    ctx.notes["supported_dtypes_extracted"] = supported
    with open(os.path.join(d, "MC_Dist.tla"), "w") as fh:
        fh.write("---- MODULE MC_Dist ----\n(* generated: element types of the fused types of libdist.pyx *)\nEXTENDS Dist\n"
                 "SupportedDef == [%s]\n====\n" % ", ".join("%s |-> %s" % (k, S(supported[k])) for k in KERNELS))
    jobs, meta = [], []
    pr = tier["prange"]
    pconst = dict(Table="<- TableDef", Arrays="<- ArraysDef", ClassMax="<- ClassMaxDef", ClassMin="<- ClassMinDef",
                  MaxThreads=str(pr["threads"]), Salts=S(pr["salts"]))
    tables = {}
    unmodelled = {}
    for src, names, tag in ((selfmod, tier["selftest"], "self"), (mod, KERNELS, "libdist")):
        for k in names:
            mname = "MC_Prange_%s_%s" % (tag, k)
            try:
                txt, classes, kinfo = pa.tla_module(src, k, mname, pr["cmax"])
            except pa.ExtractError as ex:
                if tag == "self":
                    raise core.MachineryError("cannot build the access model of %s: %s" % (k, ex))
                # the kernel is no longer written as prange loops over rows the access model understands: schedule
                # independence is then decided by the replay alone (every thread configuration against one thread)
                unmodelled[k] = str(ex)
                print("C13 note: %s is outside the access model of Prange.tla (%s); schedule independence of this kernel rests on "
                      "the replay under the thread configurations only" % (k, ex))
                continue
            with open(os.path.join(d, mname + ".tla"), "w") as fh:
                fh.write(txt)
            core.write_cfg(os.path.join(d, mname + ".cfg"), constants=pconst, invariants=PRANGE_INVS)
            if tag == "libdist":
                tables[k] = pa.summary(kinfo)
            jobs.append(dict(module=mname, cfg=mname + ".cfg", cwd=d, label="Prange %s %s: all interleavings" % (tag, k), workers=1 if ctx.tier == "quick" else 4,
                             coverage=ctx.tier == "quick", expect_ok=(tag == "libdist"), timeout=3000,
                             java_opts=("-XX:ParallelGCThreads=2", "-Xmx3g")))
            meta.append(("prange", tag, k))
    ctx.notes["access_tables_extracted"] = tables
    ctx.notes["kernels_outside_the_access_model"] = unmodelled

    # ---- Dist.tla: machine runs and emitters ---------------------------------------------------------------------
    for n, (label, kw) in enumerate(tier["machine"]):
        core.write_cfg(os.path.join(d, "m%d.cfg" % n), constants=dist_consts(**kw), invariants=DIST_INVS)
        jobs.append(dict(module="MC_Dist", cfg="m%d.cfg" % n, cwd=d, label="Dist " + label, workers=2 if ctx.tier == "quick" else 4,
                         coverage=ctx.tier == "quick", timeout=3000, java_opts=("-XX:ParallelGCThreads=2", "-Xmx3g")))
        meta.append(("machine", n, label))
    emitters = []
    for n, sc in enumerate(tier["vals"]):
        emitters.append(("vals%d" % n, dict(Kernels=["euclidean"], Emit="vals", **sc), "EmitVals", sc))
    emitters.append(("gen", dict(Kernels=["euclidean"], Emit="vals", DataMode="gen", **tier["gen"]), "EmitVals", dict(big=True)))
    emitters.append(("genwide", dict(Kernels=["euclidean"], Emit="vals", DataMode="genpos", **tier["wide"]), "EmitVals", dict(big=True)))
    vmax = max([sc["V"] for sc in tier["vals"]] + [tier["gen"]["V"]])
    emitters.append(("cfg_good", dict(Vias=ALL_VIAS, DTypes=ALL_DTYPES, YDts=["same", "other"], Layouts=LAYOUTS, OutKinds=GOOD_OUTS,
                                      UBits=ALL_UBITS, DataMode="zero", V=vmax, Emit="cfg"), "EmitCfg", {}))
    emitters.append(("cfg_bad", dict(DTypes=["int32", "float64", "uint8"], OutKinds=GOOD_OUTS + BAD_OUTS, XRanks=[1, 2, 3], YRanks=[0, 1, 2],
                                     DWs=["same", "wider", "narrower"], DataMode="zero", V=vmax, Emit="cfg"), "EmitCfg", {}))
    rows = sorted({r for sc in tier["vals"] for r in range(sc["MinR"], sc["MaxR"] + 1)})
    cols = sorted({f for sc in tier["vals"] for f in range(sc["MinF"], sc["MaxF"] + 1)})
    # buffer layouts: one emitter for the small + generated shapes, one for the wide rows (the cross product of all
    # row and column counts would contain shapes nobody replays, 257 x 66000 among them)
    emitters.append(("lay", dict(Kernels=["euclidean"], Layouts=LAYOUTS, OutKinds=GOOD_OUTS, DataMode="zero", MinR=rows[0], MaxR=rows[-1],
                                 MinF=cols[0], MaxF=cols[-1], GenRows=tier["gen"]["GenRows"], GenCols=tier["gen"]["GenCols"], Emit="lay"),
                     "EmitLay", {}))
    emitters.append(("laywide", dict(Kernels=["euclidean"], Layouts=LAYOUTS, OutKinds=GOOD_OUTS, DataMode="zero", MinR=1, MaxR=0,
                                     MinF=1, MaxF=0, GenRows=tier["wide"]["GenRows"], GenCols=tier["wide"]["GenCols"], Emit="lay"),
                     "EmitLay", {}))
    for name, kw, inv, _ in emitters:
        core.write_cfg(os.path.join(d, name + ".cfg"), next_="Stutter", constants=dist_consts(**kw), invariants=[inv])
        jobs.append(dict(module="MC_Dist", cfg=name + ".cfg", cwd=d, label="Dist emit " + name, workers=1, timeout=3000,
                         java_opts=("-XX:ParallelGCThreads=2", "-Xmx3g")))
        meta.append(("emit", name, None))
    results = ctx.tlc_parallel(jobs, max_par=8)

    # ---- verdicts of the model runs ---------------------------------------------------------------------------------
    expected_self = dict(SELFTEST)
    pcov = {}
    cases, cfgs, lays = [], [], {}
    for (kind, a, k), r in zip(meta, results):
        if kind == "prange":
            if a == "self":
                want = expected_self[k]
                if (r.violated or None) != want:
                    raise core.MachineryError("Prange model self-test: %s should give %s, TLC says %s" % (k, want or "no violation", r.violated))
                ctx.case(("prange-selftest", k), sample=None)
            else:
                ctx.case(("prange", k), sample={"kernel": k, "access_table": tables[k], "violated": r.violated})
            if r.coverage or "Next line" in r.stdout:
                for nm, cnt in named_coverage(r, os.path.join(d, "Prange.tla")).items():
                    pcov[nm] = pcov.get(nm, 0) + cnt
        elif kind == "emit":
            sc = next(e[3] for e in emitters if e[0] == a)
            if a.startswith("vals") or a in ("gen", "genwide"):
                got = [p for t, p in r.prints if t == "CASE"]
                if not got:
                    raise core.MachineryError("no CASE lines from emitter %s" % a)
                if sc.get("sample") and len(got) > sc["sample"]:
                    stride = -(-len(got) // sc["sample"])
                    got = [g for n, g in enumerate(got) if (n + ctx.seed) % stride == 0]
                    ctx.exhaustive = False
                for g in got:
                    if sc.get("big"):
                        g["big"] = True
                cases += got
            elif a.startswith("cfg"):
                got = [p for t, p in r.prints if t == "CFG"]
                if not got:
                    raise core.MachineryError("no CFG lines from emitter %s" % a)
                cfgs += [g for g in got if (a == "cfg_bad") == (g["expect"] == "error")]
            else:       # "lay", "laywide"
                for t, p in r.prints:
                    if t == "LAY":
                        lays["%s|%s|%d|%d" % (p["layout"], p["out"], p["r"], p["f"])] = p
        r.stdout = ""
        r.prints = []
    if pcov:
        ctx.notes["prange_action_counts"] = pcov
        if ctx.tier == "quick":
            idle = [a for a in ("Claim", "DoSkip", "DoLoad", "DoStore", "DoScalar", "DoTest", "Finish", "Join", "NextLoop") if not pcov.get(a)]
            if idle:
                raise core.MachineryError("Prange actions never taken: %s" % idle)
    if not lays:
        raise core.MachineryError("no LAY lines emitted")

    # ---- replay ------------------------------------------------------------------------------------------------------
    calls, bad_calls = plan_calls(tier, cases, cfgs, ctx.seed)
    if ctx.tier == "quick":
        ctx.exhaustive = False
    ctx.notes["replay_plan"] = {"cases": len(cases), "configurations": len(cfgs), "layout_records": len(lays),
                                "calls_per_thread_count_1": len(calls) + len(bad_calls)}
    wd = core.scratch("ev_c13_")
    work = []
    allcalls = calls + bad_calls
    for t in tier["threads"]:
        budget = tier["budget"][t]
        if budget is None or budget >= len(allcalls):
            sel = allcalls
        else:
            big = [c for c in calls if cases[c[0]].get("big")]
            rest = [c for c in allcalls if not cases[c[0]].get("big")]
            stride = max(1, -(-len(rest) // max(1, budget - len(big) // 2)))
            big_stride = max(1, -(-len(big) // max(1, budget // 2)))
            sel = big[(ctx.seed + t) % big_stride::big_stride] + rest[(ctx.seed + t) % stride::stride]
        nshard = 4 if t == 1 else 2 if t == 2 else 1
        for s in range(nshard):
            work.append((t, s, sel[s::nshard]))
    from concurrent.futures import ThreadPoolExecutor

    def one(w):
        t, s, sel = w
        # big cases are repeated (identical bits required); small ones run once
        big = [c for c in sel if cases[c[0]].get("big")]
        small = [c for c in sel if not cases[c[0]].get("big")]
        out = []
        for part, rep, tag in ((small, 1, "s"), (big, tier["repeat_big"], "b")):
            if part:
                out.append((part, run_worker(b, {"cases": cases, "cfgs": cfgs, "lays": lays, "calls": part, "repeat": rep}, t, wd,
                                             "%d_%d%s" % (t, s, tag))))
        return out
    with ThreadPoolExecutor(10) as ex:
        outs = list(ex.map(one, work))
    ref = {}          # digests at one thread
    seen_err = {}
    per_thread = {}
    for (t, s, _), parts in sorted(zip(work, outs), key=lambda z: z[0][0]):
        for part, res in parts:
            if "crash" in res:
                ctx.violation({"kind": "replay", "threads": t, "how": "the worker process running the kernels died with signal %d "
                               "(memory error inside the extension)" % res["crash"], "stderr": res["stderr"],
                               "first_call": {"case": cases[part[0][0]], "cfg": cfgs[part[0][1]]}},
                              key="libdist/worker-killed-by-signal-%d" % res["crash"])
                continue
            per_thread[t] = per_thread.get(t, 0) + res["n_calls"]
            for k, v in res["errors_seen"].items():
                seen_err[k] = seen_err.get(k, 0) + v
            ctx.traces += len(part)
            bad = {(m["ci"], m["gi"]): m for m in res["mism"]}
            for ci, gi in part:
                c, g = cases[ci], cfgs[gi]
                nontriv = g["expect"] == "error" or (c["r"] > 0 and max(c["l1"]) > 0)
                ctx.case((ci, gi, t) if nontriv else None,
                         sample={"case": c, "cfg": g, "threads": t} if nontriv and c["r"] == 3 and g["out"] != "none" and len(ctx.samples) < 5 else None)
                m = bad.get((ci, gi))
                if m is not None:
                    ctx.violation({"kind": "replay", "case": {k: v for k, v in c.items()}, "cfg": g, "threads": t, "what": m["what"],
                                   "detail": m["detail"], "how": "%s(X, y%s) vs Dist.tla (expect %s)" % (site_of(g), "" if g["out"] == "none" else ", out=" + g["out"], g["expect"])},
                                  key="%s/%s/%s" % (site_of(g), m["what"], input_class(g)))
                    continue
                dg = res["digests"].get("%d,%d" % (ci, gi))
                if t == 1:
                    ref[(ci, gi)] = dg
                elif (ci, gi) in ref and ref[(ci, gi)] != dg:
                    ctx.violation({"kind": "replay", "case": c, "cfg": g, "threads": t, "what": "bits differ from the single-threaded run",
                                   "how": "same call, OMP_NUM_THREADS=1 vs %s" % omp_env(t)},
                                  key="%s/threads-differ/%s" % (site_of(g), input_class(g)))
    ctx.notes["calls_per_thread_count"] = per_thread
    ctx.notes["exception_types_seen"] = seen_err


def replay(ctx, path):
    rec = json.load(open(path))
    if rec.get("kind") != "replay" or "cfg" not in rec:
        return run(ctx)
    b = core.build_repo()
    d = core.spec_tmp(SPEC_DIR)
    mod = pa.extract(os.path.join(b, "enspara", "geometry", "libdist.pyx"))
    supported = {k: pa.supported_dtypes(mod, k) for k in KERNELS}
    with open(os.path.join(d, "MC_Dist.tla"), "w") as fh:
        fh.write("---- MODULE MC_Dist ----\nEXTENDS Dist\nSupportedDef == [%s]\n====\n"
                 % ", ".join("%s |-> %s" % (k, S(supported[k])) for k in KERNELS))
    c, g = rec["case"], rec["cfg"]
    core.write_cfg(os.path.join(d, "lay.cfg"), next_="Stutter", invariants=["EmitLay"],
                   constants=dist_consts(Kernels=["euclidean"], Layouts=LAYOUTS, OutKinds=GOOD_OUTS, DataMode="zero", MinR=c["r"], MaxR=c["r"],
                                         MinF=c["f"], MaxF=c["f"], Emit="lay"))
    r = ctx.tlc("MC_Dist", "lay.cfg", d, label="layouts", workers=1)
    lays = {"%s|%s|%d|%d" % (p["layout"], p["out"], p["r"], p["f"]): p for t, p in r.prints if t == "LAY"}
    res = run_worker(b, {"cases": [c], "cfgs": [g], "lays": lays, "calls": [[0, 0]], "repeat": 1}, rec.get("threads", 1), core.scratch("ev_c13_"), "replay")
    ctx.case(("replay",), sample={"case": c, "cfg": g})
    ctx.traces += 1
    if "crash" in res:
        ctx.violation(dict(rec, how="worker died with signal %d" % res["crash"]), key=rec.get("key"))
    for m in res.get("mism", []):
        ctx.violation({"kind": "replay", "case": c, "cfg": g, "threads": rec.get("threads", 1), "what": m["what"], "detail": m["detail"]},
                      key="%s/%s/%s" % (site_of(g), m["what"], input_class(g)))
