"""C03 -- transition counts equal the exact number of lagged state pairs.

Spec: specs/msm/Counts.tla.  TLC (a) checks on every input in scope that the
implementation-shaped mask/slice/stack pipeline equals the cardinality
definition (Exact, Square, Total, NoLeak, Additive) and (b) emits every input
with the expected matrix; the driver replays each input into the real
assigns_to_counts in five forms (ragged, padded rectangular, permuted,
split-and-summed, other integer dtype) and compares with the emitted matrix.
"""
import os

import numpy as np

from harness import core

SPEC_DIR = os.path.join(core.SPECS, "msm")
INVS = ["TypeOK", "MaskRestoresInput", "Exact", "Square", "Total", "NoLeak"]

SCOPES = {
    "quick": [dict(S=2, MaxT=3, MaxLen=3, MaxLag=2, MaxPad=1),
              dict(S=3, MaxT=2, MaxLen=3, MaxLag=2, MaxPad=0),
              dict(S=2, MaxT=1, MaxLen=6, MaxLag=4, MaxPad=1)],
    "thorough": [dict(S=2, MaxT=3, MaxLen=4, MaxLag=4, MaxPad=1),
                 dict(S=3, MaxT=2, MaxLen=4, MaxLag=3, MaxPad=1),
                 dict(S=2, MaxT=4, MaxLen=2, MaxLag=2, MaxPad=1),
                 dict(S=2, MaxT=1, MaxLen=8, MaxLag=5, MaxPad=1)],
}


_FLAG = [0]


def _call(assigns, lag, n, sliding):
    from enspara.msm.transition_matrices import assigns_to_counts
    # the switch and the numbers in every form a caller may hold them in (python / numpy scalars)
    _FLAG[0] += 1
    k = _FLAG[0]
    sliding = (bool(sliding), np.bool_(sliding), int(sliding), np.array([sliding])[0])[k % 4]
    lag = (lag, np.int64(lag), np.int32(lag))[k % 3]
    if n is not None:
        n = (n, np.int64(n))[k % 2]
    C = assigns_to_counts(assigns, lag, max_n_states=n, sliding_window=sliding)
    if k % 2:
        # a caller may do what it likes to a matrix it was handed (weight it in place, zero it): the next count of the
        # same data must not know
        try:
            C *= 3
            C.data[:] = 0
        except Exception:
            pass
        C = assigns_to_counts(assigns, lag, max_n_states=n, sliding_window=sliding)
    return np.asarray(C.toarray())


def replay_case(c):
    """Returns list of (form, detail) mismatches."""
    from enspara import ra
    trajs = c["trajs"]
    lag, sliding = c["lag"], c["sliding"]
    n = None if c["nstates"] == 0 else c["nstates"]
    exp = np.array(c["C"], dtype=np.int64).reshape(c["n"], c["n"])
    bad = []

    def cmp(form, f):
        try:
            got = f()
        except Exception as ex:  # the property admits no error on these inputs
            bad.append((form, "raised %s: %s" % (type(ex).__name__, ex)))
            return
        if got.shape != exp.shape or not np.array_equal(got, exp):
            bad.append((form, {"got": got.tolist(), "expected": exp.tolist()}))

    w = max(len(t) for t in trajs) + c["pad"]
    padded = np.full((len(trajs), w), -1, dtype=np.int64)
    for k, t in enumerate(trajs):
        padded[k, :len(t)] = t
    cmp("ragged", lambda: _call(ra.RaggedArray([np.array(t) for t in trajs]), lag, n, sliding))
    cmp("padded", lambda: _call(padded, lag, n, sliding))
    cmp("padded-int32", lambda: _call(padded.astype(np.int32), lag, n, sliding))
    if len(trajs) > 1:
        perm = list(reversed(range(len(trajs))))
        cmp("permuted", lambda: _call(ra.RaggedArray([np.array(trajs[k]) for k in perm]), lag, n, sliding))
        perm2 = list(range(1, len(trajs))) + [0]
        cmp("rotated-padded", lambda: _call(padded[perm2], lag, n, sliding))
        cmp("split", lambda: _call(padded[:1], lag, c["n"], sliding) + _call(padded[1:], lag, c["n"], sliding))
    # relabelling: the count of a pair depends on the pair only, so an order-preserving injection of the state ids
    # into a large id space (narrow integer dtypes, ids near the top of what 32 / 16 bits can address as i*n+j)
    # must move every count of the emitted matrix to the image cell and create no other entry
    if max(s for t in trajs for s in t) <= 2:
        for tag, amap, dt in (("wide-int32", [65000, 65001, 69999], np.int32), ("wide-int16", [180, 181, 200], np.int16),
                              ("wide-int64", [65000, 65001, 69999], np.int64),
                              # unsigned storage with the state ids at the very top of the type (a 256-state model
                              # in uint8): there is no room for a padding marker, so the ragged form only
                              ("top-uint8", [3, 254, 255], np.uint8), ("top-uint16", [7, 65534, 65535], np.uint16)):
            top = max((s for t in trajs for s in t))
            nn = amap[top] + 1 if n is None else amap[-1] + 1
            want = {(amap[i], amap[j]): int(exp[i, j]) for i in range(exp.shape[0]) for j in range(exp.shape[1]) if exp[i, j]}
            for form, mk in (("ragged", lambda: ra.RaggedArray([np.array([amap[s] for s in t], dtype=dt) for t in trajs])),
                             ("padded", lambda: np.where(padded >= 0, np.array(amap + [0] * 4)[np.clip(padded, 0, None)], -1).astype(dt))):
                if form == "padded" and np.dtype(dt).kind == "u":
                    continue
                try:
                    from enspara.msm.transition_matrices import assigns_to_counts
                    C = assigns_to_counts(mk(), lag, max_n_states=None if n is None else nn, sliding_window=sliding).tocoo()
                    got = {}
                    for i, j, v in zip(C.row.tolist(), C.col.tolist(), C.data.tolist()):
                        if v:
                            got[(i, j)] = got.get((i, j), 0) + int(v)
                    if C.shape != (nn, nn) or got != want:
                        bad.append(("%s-%s" % (tag, form), {"got": {"shape": list(C.shape), "entries": sorted(got.items())[:12]},
                                                            "expected": {"shape": [nn, nn], "entries": sorted(want.items())[:12]},
                                                            "relabelling": amap}))
                except Exception as ex:
                    bad.append(("%s-%s" % (tag, form), "raised %s: %s" % (type(ex).__name__, ex)))
    # inputs must not be modified
    for k, t in enumerate(trajs):
        if padded[k, :len(t)].tolist() != list(t) or (padded[k, len(t):] != -1).any():
            bad.append(("input-modified", padded.tolist()))
    return bad


# ---- large inputs (specs/msm/CountsPeriodic.tla): periodic trajectories have closed-form counts --------------------
PATS = "{<<0, 1>>, <<0, 1, 2>>, <<0, 0, 1>>, <<2, 0, 1, 1>>, <<1>>, <<0, 2, 2, 1, 0>>}"
BIG = {"quick": ["<< <<<<0, 1, 2>>, 700000>>, <<<<0, 0, 1>>, 500000>>, <<<<2, 0, 1, 1>>, 100>> >>",
                 "<< <<<<2, 0, 1, 1>>, 100>>, <<<<0, 1>>, 1048577>>, <<<<0, 2, 2, 1, 0>>, 3>>, <<<<1>>, 70001>> >>",
                 "<< <<<<0, 1>>, 65537>>, <<<<0, 1, 2>>, 65536>>, <<<<0, 0, 1>>, 65535>> >>"],
       "thorough": ["<< <<<<0, 1, 2>>, 700000>>, <<<<0, 0, 1>>, 500000>>, <<<<2, 0, 1, 1>>, 100>> >>",
                    "<< <<<<2, 0, 1, 1>>, 100>>, <<<<0, 1>>, 1048577>>, <<<<0, 2, 2, 1, 0>>, 3>>, <<<<1>>, 70001>> >>",
                    "<< <<<<0, 1>>, 65537>>, <<<<0, 1, 2>>, 65536>>, <<<<0, 0, 1>>, 65535>> >>",
                    "<< <<<<0, 1, 2>>, 2100000>>, <<<<0, 2, 2, 1, 0>>, 2200000>>, <<<<0, 1>>, 17>> >>"]}


def big_case(c):
    """one emitted large data set: build the frames, call the real function in ragged and padded form (and in both
    trajectory orders), compare with the closed-form matrix TLC printed"""
    from enspara import ra
    from enspara.msm.transition_matrices import assigns_to_counts
    rows = [np.tile(np.array(p, dtype=np.int64), L // len(p) + 1)[:L] for p, L in c["trajs"]]
    exp = np.array(c["C"], dtype=np.int64)
    bad = []
    for form, mk in (("ragged", lambda: ra.RaggedArray(rows)),
                     ("ragged-reversed", lambda: ra.RaggedArray(rows[::-1])),
                     ("ragged-int32", lambda: ra.RaggedArray([r.astype(np.int32) for r in rows]))):
        try:
            got = np.asarray(assigns_to_counts(mk(), c["lag"], max_n_states=c["S"], sliding_window=c["sliding"]).toarray())
        except Exception as ex:
            bad.append((form, "raised %s: %s" % (type(ex).__name__, ex)))
            continue
        if got.shape != exp.shape or not np.array_equal(got, exp):
            bad.append((form, {"got": got.tolist(), "expected": exp.tolist()}))
    return bad


def consts(sc, emit):
    d = {k: str(v) for k, v in sc.items()}
    d["Emit"] = "TRUE" if emit else "FALSE"
    return d


def run(ctx):
    ctx.rule = ("TLC enumerates every set of <=MaxT trajectories of length 1..MaxLen over S states x lag x "
                "sliding x requested-state-count x padding; a case is non-trivial when at least one lagged "
                "pair exists; distinct by (trajs, lag, sliding, nstates, pad)")
    ctx.assumptions += ["trajectory rows are non-empty (RaggedArray cannot hold empty rows)",
                        "exhaustive only within the configured scope; int64/int32 inputs"]
    b = core.build_repo()
    core.activate(b)
    d = core.spec_tmp(SPEC_DIR)
    for p in os.listdir(os.path.join(core.SPECS, "common")):
        pass
    jobs = []
    for i, sc in enumerate(SCOPES[ctx.tier]):
        cfg = core.write_cfg(os.path.join(d, "mc%d.cfg" % i), constants=consts(sc, False),
                             invariants=INVS, properties=["Additive"])
        jobs.append(dict(module="Counts", cfg=os.path.basename(cfg), cwd=d, label="exhaustive %s" % sc,
                         coverage=True, workers=4))
        cfg = core.write_cfg(os.path.join(d, "emit%d.cfg" % i), constants=consts(sc, True),
                             invariants=["EmitInv"])
        jobs.append(dict(module="Counts", cfg=os.path.basename(cfg), cwd=d, label="emit %s" % sc, workers=1))
    # large inputs: closed form checked against the definition for every small length, then emitted for big ones
    # (cfg files cannot hold tuples: the constants live in a generated wrapper module)
    with open(os.path.join(d, "MC_CountsPeriodic.tla"), "w") as fh:
        fh.write("---- MODULE MC_CountsPeriodic ----\nEXTENDS CountsPeriodic\nPatsDef == %s\nBigDef == {%s}\n"
                 "SmallDef == 0..24\nLagsDef == {1, 2, 3, 7}\n====\n" % (PATS, ", ".join(BIG[ctx.tier])))
    pc = dict(Pats="<- PatsDef", S="3", SmallLens="<- SmallDef", BigSets="<- BigDef", Lags="<- LagsDef")
    cfg = core.write_cfg(os.path.join(d, "per_small.cfg"), init="InitSmall", constants=dict(pc, Emit="FALSE"),
                         invariants=["ClosedIsDef", "TotalLaw"])
    jobs.append(dict(module="MC_CountsPeriodic", cfg=os.path.basename(cfg), cwd=d, workers=2,
                     label="CountsPeriodic closed form = definition, lengths 0..24"))
    cfg = core.write_cfg(os.path.join(d, "per_big.cfg"), init="InitBig", constants=dict(pc, Emit="TRUE"),
                         invariants=["EmitInv", "TotalLaw"])
    jobs.append(dict(module="MC_CountsPeriodic", cfg=os.path.basename(cfg), cwd=d, workers=1,
                     label="CountsPeriodic emit large data sets"))
    results = ctx.tlc_parallel(jobs)
    bigcases = [p for t, p in results[-1].prints if t == "CASE"]
    if not bigcases:
        raise core.MachineryError("no large data set emitted by CountsPeriodic")
    for c, bad in zip(bigcases, core.pmap(big_case, bigcases, chunk=2)):
        ctx.case(("big", str(c["trajs"]), c["lag"], c["sliding"]), sample=None)
        ctx.traces += 1
        for form, detail in bad:
            ctx.violation({"kind": "replay", "form": form, "trajs(pattern,length)": c["trajs"], "lag": c["lag"],
                           "sliding": c["sliding"], "detail": detail,
                           "how": "assigns_to_counts on periodic trajectories vs CountsPeriodic!Closed"},
                          key="assigns_to_counts/large/%s" % form)
    for i, sc in enumerate(SCOPES[ctx.tier]):
        r = results[2 * i + 1]
        cases = [p for t, p in r.prints if t == "CASE"]
        if not cases:
            raise core.MachineryError("no CASE lines emitted for scope %s" % sc)
        res = core.pmap(replay_case, cases)
        for c, bad in zip(cases, res):
            key = (str(c["trajs"]), c["lag"], c["sliding"], c["nstates"], c["pad"])
            nontriv = any(len(t) > c["lag"] for t in c["trajs"])
            ctx.case(key if nontriv else None, sample=c if nontriv and len(c["trajs"]) > 1 else None)
            ctx.traces += 1
            for form, detail in bad:
                ctx.violation({"kind": "replay", "form": form, "case": c, "detail": detail,
                               "how": "assigns_to_counts(...) vs Counts.tla CMatrix"},
                              key="assigns_to_counts/%s" % form)


def replay(ctx, path):
    import json
    rec = json.load(open(path))
    b = core.build_repo()
    core.activate(b)
    bad = replay_case(rec["case"])
    ctx.case(("replay",), sample=rec["case"])
    ctx.nontrivial.add(("replay2",))
    for form, detail in bad:
        ctx.violation({"kind": "replay", "form": form, "case": rec["case"], "detail": detail},
                      key="assigns_to_counts/%s" % form)
