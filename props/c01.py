"""C01 -- clustering results are self-consistent for every algorithm and input.

Models: KCenters.tla, PAM.tla, Hybrid.tla (TLC: SelfConsistent after every
iteration / proposal, CandidateConsistent, InputsUntouched, warm start
reproduces the supplied centers).  Binding: every entry point (kcenters,
kmedoids, hybrid; function and estimator form; cold and warm start; float64 /
float32 / int data; euclidean, manhattan and a callable metric) is run on
TLC-enumerated inputs, every intermediate and final state is recorded and TLC
evaluates SelfConsistent and the step relations on it (Trace_Cluster.tla).
"""
import numpy as np

from harness import core
from props import cluster_engine as ce
from props import cluster_common as cc
from props import c09

SCOPES = {
    "quick": dict(
        kc=[dict(Dim=1, P=4, MinN=4, MaxN=4, MaxK=3, Cuts=[0, 2], MetricsUsed=["l1", "l2sq"], WarmMax=2),
            dict(Dim=2, P=2, MinN=3, MaxN=3, MaxK=3, Cuts=[0], MetricsUsed=["linf", "l2sq"], WarmMax=1)],
        pam=[dict(Dim=1, P=3, MinN=4, MaxN=4, MaxK=2, MetricsUsed=["l1"], MaxSweeps=2, ExplicitProps=True)],
        hybrid=[dict(Dim=1, P=3, MinN=4, MaxN=4, MaxK=3, Cuts=[0, 1], MetricsUsed=["l1"], MaxSweeps=1, WarmMax=1)]),
    "thorough": dict(
        kc=[dict(Dim=1, P=5, MinN=3, MaxN=5, MaxK=4, Cuts=[0, 2], MetricsUsed=["l1", "l2sq"], WarmMax=2),
            dict(Dim=2, P=2, MinN=4, MaxN=4, MaxK=3, Cuts=[0], MetricsUsed=["linf", "l2sq"], WarmMax=1)],
        pam=[dict(Dim=1, P=5, MinN=5, MaxN=5, MaxK=2, MetricsUsed=["l1", "l2sq"], MaxSweeps=2, ExplicitProps=True)],
        hybrid=[dict(Dim=1, P=4, MinN=4, MaxN=5, MaxK=3, Cuts=[0, 1], MetricsUsed=["l1", "l2sq"], MaxSweeps=2, WarmMax=1)]),
}
DTYPES = ["float64", "float32", "int64", "int32", "int16"]


def run(ctx):
    ctx.rule = ("TLC enumerates inputs and configurations of the three algorithms in scope; one trace = one run of a real "
                "entry point (function/estimator, cold/warm, dtype); non-trivial = at least two centers and at least one "
                "frame that is not a center")
    ctx.assumptions += ["integer-lattice data sets of distinct points; float64/float32/int64/int32/int16 element types",
                        "ties between equidistant centers may be labelled either way (the property only forbids a strictly closer center)"]
    b = core.build_repo()
    core.activate(b)
    d = core.spec_tmp(ce.SPEC_DIR)
    sc = SCOPES[ctx.tier]
    jobs, kinds = [], []
    for i, s in enumerate(sc["kc"]):
        jobs += [ce.model_job(d, "KCenters", s, "kc%d" % i, workers=4), ce.input_job(d, "KCenters", s, "kin%d" % i)]
        kinds += [None, "kc"]
    for i, s in enumerate(sc["pam"]):
        jobs += [ce.model_job(d, "PAM", s, "pam%d" % i, workers=4), ce.input_job(d, "PAM", s, "pin%d" % i)]
        kinds += [None, "pam"]
    for i, s in enumerate(sc["hybrid"]):
        jobs += [ce.model_job(d, "Hybrid", s, "hy%d" % i, workers=4), ce.input_job(d, "KCenters", s, "hin%d" % i)]
        kinds += [None, "hybrid"]
    res = ctx.tlc_parallel(jobs)
    runs = []
    for kind, r in zip(kinds, res):
        if kind is None:
            continue
        cases = [p for t, p in r.prints if t == "CASE"]
        if not cases:
            raise core.MachineryError("no inputs for %s" % kind)
        for j, c in enumerate(cases):
            if kind == "kc":
                if ctx.tier == "quick" and j % 2 != ctx.seed % 2:
                    continue
                runs += ce.kc_runs(c, forms=("function", "estimator") if j % 4 == 0 else ("function",),
                                   dtypes=("float64", DTYPES[1 + j % 4]) if j % 6 == 0 else (DTYPES[j % 5],),
                                   beyond=(j % 5 == 1))
            elif kind == "pam":
                if ctx.tier == "quick" and c["props"] and j % 4 != ctx.seed % 4:
                    continue
                for rr in c09.pam_runs(c, j):
                    runs.append(dict(rr, dtype=DTYPES[j % 5]))
            else:
                if c["ti"]:
                    continue
                base = dict(pts=c["pts"], metric=c["metric"], algo="hybrid", k=c["k"], cut=c["cut"],
                            init=ce.to0(c["init"]), seed=j % 7, dtype=DTYPES[j % 5])
                runs.append(dict(base, sweeps=j % 3, form="function"))
                if j % 3 == 0:
                    runs.append(dict(base, sweeps=1, form="estimator"))
                if j % 7 == 2 and c["k"] >= 2:     # more clusters requested than there are frames
                    runs.append(dict(base, sweeps=1, form=("function", "estimator")[j % 2], k=len(c["pts"]) + 1))
    rng = np.random.RandomState(ctx.seed + 1)
    extra = ce.random_runs(rng, 15000 if ctx.tier == "thorough" else 500, ["kcenters", "kmedoids", "hybrid"],
                           max_n=40 if ctx.tier == "thorough" else 14)
    ctx.exhaustive = False
    cap = 12000 if ctx.tier == "quick" else 60000       # (thorough: five times the quick share; the full product of the
    if len(runs) > cap:                                 # thorough scopes is hundreds of thousands of runs -- hours)
        stride = -(-len(runs) // cap)
        ctx.notes["runs_enumerated"] = len(runs)
        runs = runs[ctx.seed % stride::stride]
        ctx.exhaustive = False
    runs += extra         # seeded random data sets beyond the enumerated scope (larger, 1-3 dimensions, scaled)
    large = ce.large_runs(rng, 2 if ctx.tier == "quick" else 8)
    def each(tr):
        res_ev = [e for e in tr["events"] if e["ev"] == "result"]
        ncent = len(res_ev[0]["ctrIdx"]) if res_ev else 0
        nontriv = 2 <= ncent < len(tr["pts"])
        ctx.case((str(tr["pts"]), tr["metric"], tr["algo"], tr["form"], tr["dtype"], tr["k"], tr["cut"], tr["ti"],
                  str(tr["init"]), str(tr["props"]), tr["sweeps"], tr["seed"]) if nontriv else None,
                 sample={k: tr[k] for k in ("pts", "metric", "algo", "form", "dtype", "k", "cut", "init", "sweeps")} |
                        {"result": res_ev[0]} if nontriv and tr["algo"] == "hybrid" else None)
    ce.record_validate_judge(ctx, runs, each, "clustering traces")
    # hundreds of frames, more than 128 clusters: the result alone is judged (Trace_ClusterLarge.tla)
    ce.judge_large(ctx, ce.validate_large(ctx, core.pmap(cc.record, large, chunk=1)))
