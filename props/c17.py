"""C17 -- pathways are real, bottleneck-optimal and never over-explain the flux.

Specs: specs/tpt/{TptGraph,WidestPath,Paths,Trace_Paths}.tla.

* WidestPath (exhaustive): on every weighted digraph of a family, every
  tie-breaking of the transcribed top_path search returns a simple, real,
  bottleneck-optimal path (brute force over all simple paths), -inf iff there
  is none.  A second cfg emits every graph with its SET of optimal paths; the
  driver replays each graph into the real top_path (pattern A): the returned
  path must be a member of that set, the flux must equal the emitted optimum.
* Paths (exhaustive): the peeling loop with any widest path per round, both
  removal schemes, path-count and flux-fraction limits; sequence clauses.
* Trace_Paths (pattern B): every run of the real `paths` on every emitted
  graph x scheme x num_paths x flux_cutoff (and on random / conserved graphs in
  the thorough tier) is recorded and TLC decides clause by clause whether it is
  a behaviour of the specification (the spec keeps its own residual).

Python here only builds inputs, calls the real functions, projects floats to
the integer weight lattice and does bookkeeping; all verdicts are TLC's.
"""
import json
import math
import os
import random
import time
import warnings
from concurrent.futures import ThreadPoolExecutor

import numpy as np

from harness import core

SPEC_DIR = os.path.join(core.SPECS, "tpt")
NONE = 1000000
KNOWN_KEY = "paths/bottleneck/non-conserved/sum>total"

WP_INVS = ["TypeOK", "PathIsSimple", "PathAlongPositiveEdges", "FluxIsMinEdge", "Optimal",
           "Unreachable", "ResultInOptSet", "ThresholdEqBrute", "VisitedFinal", "Witnessed"]
P_INVS = ["TypeOK", "NonIncreasing", "SumWithinTotal_Subtract", "ReachesFraction", "RespectsNumPaths",
          "CallerMatrixUntouched", "StopsForAReason", "NoOvershoot", "ResidualWithinOriginal",
          "PathsRealInOriginal", "SubtractKeepsConservation", "ExpIsSum"]
# enforced in the families where TLC confirms it (all conserved flows on <= 5 nodes in scope)
P_BN_CONS = "SumWithinTotal_BottleneckConserved"
P_BN_NONCONS = "SumWithinTotal_BottleneckNonConserved"

ALL_NP = [1, 2, NONE]
ALL_CUT = [(1, 2, 0), (1, 1, 0), (1, 2, 1), (2, 3, 1)]     # (cnum, cden, st): st = 1 is 'just above cnum/cden'
FULL = (1, 1, 0)
BOTH = ["subtract", "bottleneck"]


def _all(n):
    return {(i, j) for i in range(n) for j in range(n) if i != j}


def _dag(n):
    return {(i, j) for i in range(n) for j in range(n) if i < j}


def _inner(n, s, t):
    """no edge into the source, none out of the sink"""
    return {(i, j) for (i, j) in _all(n) if j != s and i != t}


FAM = {
    # one source, one sink, the 7 edges that do not enter the source / leave the sink
    "n4": dict(NN=4, srcs=[0], snks=[3], edges=_inner(4, 0, 3)),
    # every off-diagonal edge (back edges into the source, edges out of the sink)
    "n4full": dict(NN=4, srcs=[0], snks=[3], edges=_all(4)),
    "n4back": dict(NN=4, srcs=[0], snks=[3], edges=_inner(4, 0, 3) | {(1, 0), (3, 1)}),
    # two sources with an edge between them and one into a source
    "n4src2": dict(NN=4, srcs=[0, 1], snks=[3], edges={(0, 2), (0, 3), (1, 2), (1, 3), (2, 3), (0, 1), (2, 1)}),
    # two sinks with edges between them (a pathway may run through a sink), a self loop on the source
    "n4snk2": dict(NN=4, srcs=[0], snks=[3, 2],
                   edges={(0, 1), (0, 2), (1, 2), (1, 3), (2, 3), (3, 2), (0, 0)}),
    # the five edges of the DESIGN.md counterexample
    "n4cex": dict(NN=4, srcs=[0], snks=[3], edges={(0, 1), (0, 2), (1, 3), (2, 1), (2, 3)}),
    "n5": dict(NN=5, srcs=[0], snks=[4], edges=_inner(5, 0, 4)),
    "n5dag": dict(NN=5, srcs=[0], snks=[4], edges=_dag(5)),
    # a sparser acyclic edge set (6 source->sink paths)
    "n5dagq": dict(NN=5, srcs=[0], snks=[4],
                   edges={(0, 1), (0, 2), (1, 2), (1, 3), (2, 3), (1, 4), (2, 4), (3, 4)}),
    "n5all": dict(NN=5, srcs=[0], snks=[4], edges=_all(5)),
    "n5s2t2": dict(NN=5, srcs=[1, 0], snks=[3, 4],
                   edges={(0, 2), (1, 2), (0, 3), (1, 4), (2, 3), (2, 4), (3, 4), (0, 1), (2, 0), (4, 2), (1, 3), (3, 2)}),
    # the smallest conserved flow family on which bottleneck removal over-explains:
    # 0->1, 0->2, 1->2, 2->{3,4,5}, {3,4}->5
    "n6gadget": dict(NN=6, srcs=[0], snks=[5],
                     edges={(0, 1), (0, 2), (1, 2), (2, 5), (2, 3), (2, 4), (3, 5), (4, 5)}),
    "n6dag": dict(NN=6, srcs=[0], snks=[5], edges=_dag(6)),
}

# fixed regression inputs (validated through pattern B in both tiers)
FIXED = [
    # DESIGN.md counterexample (non-conserved digraph)
    dict(name="design-cex", scale=1, srcs=[0], snks=[3],
         W=[[0, 5, 0, 0], [0, 0, 3, 3], [0, 0, 0, 3], [0, 0, 0, 0]]),
    # conserved acyclic flow (in = out at 0,1,2,3; source 5, sink 4)
    dict(name="conserved-cex", scale=1, srcs=[5], snks=[4],
         W=[[0, 0, 1, 1, 3, 0], [2, 0, 0, 0, 0, 0], [0, 0, 0, 3, 2, 0], [0, 0, 0, 0, 4, 0],
            [0, 0, 0, 0, 0, 0], [3, 2, 4, 0, 0, 0]]),
    # the graph of the pinned test_paths (weights in tenths)
    dict(name="test_paths", scale=10, srcs=[0], snks=[4, 5],
         W=[[0, 5, 5, 0, 0, 0], [0, 0, 0, 3, 0, 2], [0, 0, 0, 0, 5, 0], [0, 0, 0, 0, 0, 3],
            [0, 0, 0, 0, 0, 0], [0, 0, 0, 0, 0, 0]]),
]

PLAN = {
    "quick": dict(
        # (family, MaxW, workers)
        widest=[("n4", 3, 4), ("n4full", 1, 2), ("n4src2", 2, 2), ("n4snk2", 2, 2)],
        # (family, kind, MaxW, schemes, numpaths, cutoffs, workers)
        paths=[("n4", "digraph", 2, BOTH, ALL_NP, ALL_CUT, 3),
               ("n4src2", "digraph", 2, BOTH, [NONE], [FULL], 2),
               ("n4snk2", "digraph", 1, BOTH, ALL_NP, ALL_CUT, 2),
               ("n5dagq", "dagflow", 2, BOTH, [NONE], [FULL], 2)],
        # design-level counterexamples TLC is expected to reproduce: (family, kind, MaxW, invariant, key)
        expect=[("n4cex", "digraph", 3, P_BN_NONCONS, KNOWN_KEY),
                ("n6gadget", "dagflow", 1, P_BN_CONS, "paths/bottleneck/conserved/sum>total")],
        # emitted graphs that get all 12 (scheme x num_paths x cutoff) variants recorded: every graph
        # with weights <= full_maxw and every full_every-th other one; the rest get both schemes
        # with the default limits
        full_maxw={"n4": 2}, full_every={"n4": 8},
        random=0, simulate=[]),
    "thorough": dict(
        widest=[("n4", 3, 3), ("n4full", 1, 2), ("n4src2", 2, 2), ("n4snk2", 2, 2),
                ("n4back", 2, 3), ("n5", 1, 3), ("n5dag", 2, 6), ("n5s2t2", 1, 3)],
        paths=[("n4", "digraph", 3, BOTH, ALL_NP, ALL_CUT, 6),
               ("n4full", "digraph", 1, BOTH, ALL_NP, ALL_CUT, 3),
               ("n4src2", "digraph", 2, BOTH, ALL_NP, ALL_CUT, 3),
               ("n4snk2", "digraph", 2, BOTH, ALL_NP, ALL_CUT, 3),
               ("n5", "digraph", 1, BOTH, [NONE], ALL_CUT, 5),
               ("n5dag", "dagflow", 2, BOTH, [NONE], [FULL], 6)],
        expect=[("n4cex", "digraph", 3, P_BN_NONCONS, KNOWN_KEY),
                ("n6gadget", "dagflow", 2, P_BN_CONS, "paths/bottleneck/conserved/sum>total")],
        full_maxw={"n5dag": 1}, full_every={"n5dag": 16, "n4back": 4},
        random=4000,
        # (family, kind, MaxW, num): random behaviours of Paths.tla (one sampled input each)
        simulate=[("n5all", "random-digraph", 3, 4000), ("n5s2t2", "random-digraph", 2, 4000),
                  ("n6dag", "random-dagflow", 1, 2000)]),
}


# --------------------------------------------------------------------------
# the real code: pattern A (top_path) and recording for pattern B (paths)

def _project(x, scale):
    """float on the 1/scale lattice -> int; -7 when it is not on the lattice."""
    if not np.isfinite(x):
        return -7
    v = float(x) * scale
    r = int(round(v))
    return r if abs(v - r) <= 1e-6 and abs(r) < 2 ** 30 else -7


def _pmat(A, scale):
    A = np.asarray(A)
    return [[_project(A[i, j], scale) for j in range(A.shape[1])] for i in range(A.shape[0])]


def replay_top(c):
    """Replay one emitted graph into the real top_path.  The expected values
    (set of optimal paths, optimum, reachability) were computed by TLC."""
    from enspara.tpt import top_path
    bad = []
    srcs, snks = c["srcs"], c["snks"]
    forms = [("list", srcs, snks), ("ndarray-reversed", np.array(srcs[::-1]), np.array(snks[::-1])),
             ("tuple", tuple(srcs), tuple(snks))]
    for form, s, t in forms:
        W = np.array(c["W"], dtype=float)
        W0 = W.copy()
        try:
            p, f = top_path(s, t, W)
        except Exception as ex:
            bad.append(("raised", form, "%s: %s" % (type(ex).__name__, ex)))
            continue
        p = [int(x) for x in np.asarray(p).reshape(-1)]
        if c["reach"]:
            if p not in c["opt"]:
                bad.append(("path-not-optimal", form, {"got": p, "flux": float(f), "optimal": c["opt"]}))
            elif not (np.isfinite(f) and core.close(float(f), c["best"], 1)):
                bad.append(("flux", form, {"got": float(f), "expected": c["best"], "path": p}))
        else:
            if not (f == -np.inf and len(p) == 1 and p[0] in snks):
                bad.append(("unreachable", form, {"got": p, "flux": float(f)}))
        if not np.array_equal(W, W0):
            bad.append(("input-modified", form, W.tolist()))
    return bad


def _make(Wint, scale, form):
    A = np.array(Wint, dtype=float) / scale
    if form in ("f64", "f64-tuple", "f64-rev"):
        return A
    if form == "f64-tiny":
        # the whole flux network in units of 2^-60 (~1e-18; exact in floating point): fluxes have no natural unit
        return A * 2.0 ** -60
    if form == "f64-huge-elsewhere":
        # two extra states that no source can reach, joined by an edge 2^62 times the unit: the widest source-to-sink
        # paths, their fluxes and the total outflow of the sources are what they were
        n = A.shape[0]
        big = np.zeros((n + 2, n + 2))
        big[:n, :n] = A
        big[n, n + 1] = 2.0 ** 62
        return big
    if form == "f64-F":
        return np.asfortranarray(A)
    if form == "f32":
        return A.astype(np.float32)
    if form == "i64":
        return np.array(Wint, dtype=np.int64)
    if form == "view":
        big = np.zeros((2 * A.shape[0], 2 * A.shape[1]))
        big[::2, ::2] = A
        return big[::2, ::2]
    raise ValueError(form)


def _one_run(Wint, scale, srcs, snks, cfgrun, form):
    from enspara.tpt import paths
    scheme, numpaths, cnum, cden, cst = cfgrun
    A = _make(Wint, scale, form)
    # flux_cutoff is passed as c - 1e-10, like the default 1 - 1e-10, so that exact-boundary
    # cases are decided identically in floating point and in the exact arithmetic of the spec
    kw = dict(remove_path=scheme, num_paths=(np.inf if numpaths == NONE else numpaths),
              flux_cutoff=cnum / cden + (2e-6 if cst else -1e-10))
    rec = dict(scheme=scheme, numpaths=numpaths, cnum=cnum, cden=cden, cst=cst, form=form)
    try:
        with warnings.catch_warnings():
            warnings.simplefilter("ignore")
            with np.errstate(all="ignore"):
                # the state sets as lists, integer arrays, tuples, or listed in decreasing order
                sa, ta = ((np.array(srcs), np.array(snks)) if form == "f64-F" else
                          (tuple(srcs), tuple(snks)) if form == "f64-tuple" else
                          (np.array(srcs[::-1]), list(snks[::-1])) if form == "f64-rev" else (srcs, snks))
                ps, fl = paths(sa, ta, A, **kw)
    except Exception as ex:
        rec["raised"] = "%s: %s" % (type(ex).__name__, ex)
        return rec
    rec["paths"] = [[int(x) for x in np.asarray(p).reshape(-1)] for p in ps]
    unit = scale * (2.0 ** 60 if form == "f64-tiny" else 1)
    rec["fluxes"] = [_project(x, unit) for x in np.asarray(fl, dtype=float).reshape(-1)]
    if form == "f64-huge-elsewhere":
        n = len(Wint)
        extra_ok = A[n, n + 1] == 2.0 ** 62 and A[n:, :].sum() == 2.0 ** 62 and not A[:n, n:].any()
        rec["after"] = _pmat(A[:n, :n], scale) if extra_ok else [[-7]]
    else:
        rec["after"] = _pmat(A, 1 if form == "i64" else unit)
    return rec


def record_case(job):
    """All runs of the real `paths` on one graph, projected to integers."""
    Wint, scale, srcs, snks = job["W"], job["scale"], job["srcs"], job["snks"]
    runs = []
    for cfgrun in job["runs"]:
        main = _one_run(Wint, scale, srcs, snks, cfgrun, "f64")
        runs.append(main)
        if cfgrun[1] == NONE and cfgrun[2] == cfgrun[3] and not cfgrun[4]:
            # other containers / dtypes: an identical record is the same trace; a different
            # one is validated on its own
            extra = ("f64-tuple", "f64-rev") if len(srcs) > 1 or len(snks) > 1 else ()
            extra += (("f64-tiny",), ("f64-huge-elsewhere",), ())[(sum(map(sum, Wint)) + len(srcs)) % 3]
            for form in tuple(job.get("forms", ())) + extra:
                if form == "i64" and scale != 1:
                    continue
                r = _one_run(Wint, scale, srcs, snks, cfgrun, form)
                same = all(r.get(k) == main.get(k) for k in ("paths", "fluxes", "after", "raised"))
                if same:
                    main.setdefault("same_as", []).append(form)
                else:
                    runs.append(r)
    return dict(W=Wint, srcs=srcs, snks=snks, scale=scale, family=job["family"], runs=runs)


def _chunk(args):
    fn, items = args
    os.environ["OMP_NUM_THREADS"] = "1"
    out = []
    for it in items:
        try:
            out.append(fn(it))
        except Exception:
            import traceback
            out.append({"_harness_error": traceback.format_exc(), "case": it})
    return out


class Workers:
    """Forked pool created before any TLC thread is started."""

    def __init__(self, procs=None):
        import multiprocessing as mp
        self.pool = mp.get_context("fork").Pool(procs or min(14, os.cpu_count() or 4))

    def map(self, fn, items, chunk=100):
        items = list(items)
        chunks = [items[i:i + chunk] for i in range(0, len(items), chunk)]
        flat = [x for ch in self.pool.map(_chunk, [(fn, ch) for ch in chunks]) for x in ch]
        for x in flat:
            if isinstance(x, dict) and "_harness_error" in x:
                raise core.MachineryError("replay driver crashed:\n%s\ncase=%r" % (x["_harness_error"], x["case"]))
        return flat

    def close(self):
        self.pool.terminate()


# --------------------------------------------------------------------------
# TLC job construction

def _mc(d, name, base, defs, consts, **cfgkw):
    """Tuples cannot be written in a cfg: constants that are sequences / sets of
    tuples are defined in a generated module MC_<name> EXTENDS <base>."""
    mod = "MC_" + name.replace("-", "_")
    with open(os.path.join(d, mod + ".tla"), "w") as fh:
        fh.write("---- MODULE %s ----\nEXTENDS %s\n" % (mod, base))
        for k, v in defs.items():
            fh.write("c_%s == %s\n" % (k, v))
        fh.write("====\n")
    c = dict(consts)
    for k in defs:
        c[k] = "<- c_" + k
    core.write_cfg(os.path.join(d, mod + ".cfg"), constants=c, **cfgkw)
    return mod, mod + ".cfg"


def _fam_defs(f):
    return {"Srcs": core.tla_lit(f["srcs"]), "Snks": core.tla_lit(f["snks"]),
            "Edges": core.tla_lit(set(f["edges"]))}


def _np_lit(vals):
    return "{" + ", ".join("None" if v == NONE else str(v) for v in vals) + "}"


def widest_jobs(d, fam, maxw, workers):
    """-> (exhaustive job, [emit jobs]); the emission (single-threaded by nature) of a large
    family is split into shards by weight sum."""
    f = FAM[fam]
    consts = {"NN": f["NN"], "MaxW": maxw}
    m1, c1 = _mc(d, "wp_%s_w%d" % (fam, maxw), "WidestPath", _fam_defs(f),
                 dict(consts, Emit="FALSE", ShardK=0, ShardM=1),
                 invariants=WP_INVS, properties=["VisitedFrozen"], check_deadlock=True)
    lab = "%s W<=%d" % (fam, maxw)
    ngraphs = (maxw + 1) ** len(f["edges"])
    shards = max(1, min(8, ngraphs // 8000))
    emits = []
    for k in range(shards):
        m2, c2 = _mc(d, "wpemit_%s_w%d_%d" % (fam, maxw, k), "WidestPath", _fam_defs(f),
                     dict(consts, Emit="TRUE", ShardK=k, ShardM=shards), invariants=["EmitInv"], next_="Stutter")
        emits.append(dict(module=m2, cfg=c2, cwd=d, label="WidestPath emit %s shard %d/%d" % (lab, k, shards),
                          workers=1, timeout=3000, java_opts=("-Xmx2g",)))
    # per-action coverage costs ~40% of TLC's time: collected on all but the largest runs
    return (dict(module=m1, cfg=c1, cwd=d, label="WidestPath exhaustive " + lab, workers=workers,
                 coverage=(ngraphs < 15000), timeout=3000, java_opts=("-Xmx2g",), deadlock=True), emits)


def paths_job(d, fam, kind, maxw, schemes, nps, cuts, workers, invariants, tag="", **kw):
    f = FAM[fam]
    defs = _fam_defs(f)
    defs["Schemes"] = core.tla_lit(set(schemes))
    defs["NumPaths"] = _np_lit(nps)
    defs["Cutoffs"] = core.tla_lit(set(cuts))
    consts = {"NN": f["NN"], "MaxW": maxw, "Family": json.dumps(kind)}
    name = "p%s_%s_%s_w%d_%d" % (tag, fam, kind, maxw, len(nps) * len(cuts) * len(schemes))
    sim = "simulate" in kw
    m, c = _mc(d, name, "Paths", defs, consts, invariants=invariants, check_deadlock=not sim,
               next_="Step" if sim else "Next")
    lab = "Paths %s %s/%s W<=%d schemes=%s num_paths=%s cutoffs=%s" % (
        tag or "exhaustive", fam, kind, maxw, "+".join(schemes),
        ["inf" if v == NONE else v for v in nps], ["%d/%d%s" % (c_[0], c_[1], "+" if c_[2] else "") for c_ in cuts])
    j = dict(module=m, cfg=c, cwd=d, label=lab, workers=workers, timeout=3000, java_opts=("-Xmx2g",),
             deadlock=not sim)
    j.update(kw)
    return j


# --------------------------------------------------------------------------
# inputs generated in Python for pattern B (thorough tier)

def random_cases(seed, n_cases):
    """Random weighted digraphs and conserved acyclic flows, n <= 8, weights k/8."""
    rng = random.Random(seed)
    out = []
    for c in range(n_cases):
        n = rng.randint(4, 8)
        kind = ("digraph", "flow", "flow-relabelled", "digraph-multi")[c % 4]
        W = [[0] * n for _ in range(n)]
        if kind.startswith("digraph"):
            dens = rng.choice([0.25, 0.4, 0.6])
            top = rng.choice([2, 4, 8, 16])
            for i in range(n):
                for j in range(n):
                    if i != j and rng.random() < dens:
                        W[i][j] = rng.randint(1, top)
            nodes = list(range(n))
            rng.shuffle(nodes)
            if kind == "digraph":
                srcs, snks = [nodes[0]], [nodes[1]]
            else:
                a = rng.randint(1, 2)
                b = rng.randint(1, 2)
                srcs, snks = nodes[:a], nodes[a:a + b]
        else:
            # sum of path flows along a topological order => conserved, acyclic
            perm = list(range(n))
            if kind == "flow-relabelled":
                rng.shuffle(perm)
            ns = 1 if rng.random() < 0.7 else 2
            nt = 1 if rng.random() < 0.7 else 2
            srcs = [perm[k] for k in range(ns)]
            snks = [perm[n - 1 - k] for k in range(nt)]
            for _ in range(rng.randint(1, 6)):
                inner = [k for k in range(ns, n - nt) if rng.random() < 0.5]
                p = [rng.randrange(ns)] + inner + [n - 1 - rng.randrange(nt)]
                fl = rng.randint(1, 12)
                for a, b in zip(p[:-1], p[1:]):
                    W[perm[a]][perm[b]] += fl
        out.append(dict(W=W, scale=8, srcs=srcs, snks=snks, family="random-" + kind))
    return out


# --------------------------------------------------------------------------

def _key(scheme, tptflow, failed):
    cls = "conserved" if tptflow else "non-conserved"
    if failed == ["SumWithinTotal"]:
        return "paths/%s/%s/sum>total" % (scheme, cls)
    return "paths/%s/%s/%s" % (scheme, cls, "+".join(failed))


def validate(ctx, d, cases, pool_submit, tag):
    """Write the recorded cases to trace files, return the submitted TLC jobs."""
    tdir = core.scratch("ev_c17tr_")
    total_runs = sum(len(c["runs"]) for c in cases)
    nchunks = max(1, min(10 if total_runs < 400000 else 20, total_runs // 4000))
    size = int(math.ceil(len(cases) / nchunks))
    m, cfg = _mc(d, "trace_" + tag, "Trace_Paths", {}, {}, invariants=["Verdict"])
    subs = []
    for ci in range(nchunks):
        part = cases[ci * size:(ci + 1) * size]
        if not part:
            continue
        path = os.path.join(tdir, "%s_%d.json" % (tag, ci))
        slim = [dict(W=c["W"], srcs=c["srcs"], snks=c["snks"],
                     runs=[{k: r[k] for k in ("scheme", "numpaths", "cnum", "cden", "cst", "paths", "fluxes", "after")}
                           for r in c["runs"]]) for c in part]
        with open(path, "w") as fh:
            json.dump(slim, fh)
        job = dict(module=m, cfg=cfg, cwd=d, label="Trace_Paths %s chunk %d (%d cases)" % (tag, ci, len(part)),
                   workers=2, env={"TRACE_FILE": path}, timeout=3000, java_opts=("-Xmx2g",))
        subs.append((part, pool_submit(job)))
    return subs


def many_paths_part(ctx):
    """thorough tier: a conserved acyclic flow on the complete DAG over 165 states (13530 edges) decomposes into more than
    10^4 pathways; with the default num_paths the clauses PathsAreReal / NonIncreasing / ReachesFraction of Paths.tla are
    evaluated on what the real `paths` returns (no trace validation at this length: 10^4 pathways of up to 150 states)"""
    from enspara.tpt import path as tptpath
    n = 165
    rng = np.random.default_rng(17)
    F = np.zeros((n, n))
    for i in range(n - 1):
        for j in range(i + 1, n):
            wgt = float(rng.integers(1, 1 << 30))
            p = [i, j]
            a = i
            while a != 0:
                a = int(rng.integers(0, a))
                p.insert(0, a)
            a = j
            while a != n - 1:
                a = int(rng.integers(a + 1, n))
                p.append(a)
            F[p[:-1], p[1:]] += wgt
    F0 = F.copy()
    total = F0[0].sum()
    ctx.case(("many-paths", n))
    ctx.traces += 1
    t0 = time.time()
    try:
        plist, fluxes = tptpath.paths([0], [n - 1], F)
    except Exception as ex:
        ctx.violation({"kind": "paths-raised", "case": "complete DAG flow, %d states" % n, "error": "%s: %s" % (type(ex).__name__, ex)},
                      key="paths/raised/subtract/%s" % type(ex).__name__)
        return
    fluxes = np.asarray(fluxes, dtype=float)
    bad = []
    R = F0.copy()
    for k, (p, f) in enumerate(zip(plist, fluxes)):
        p = [int(x) for x in p]
        e = R[p[:-1], p[1:]]
        if len(set(p)) != len(p) or p[0] != 0 or p[-1] != n - 1 or not np.all(e > 0) or f != e.min():
            bad.append(("PathsAreReal", k))
            break
        R[p[:-1], p[1:]] -= f
    if np.any(np.diff(fluxes) > 0):
        bad.append(("NonIncreasing", int(np.argmax(np.diff(fluxes) > 0))))
    if not fluxes.sum() >= (1 - 1e-10) * total * (1 - 1e-12):
        bad.append(("ReachesFraction", len(plist)))
    if not np.array_equal(F, F0):
        bad.append(("InputUntouched", 0))
    for clause, at in bad:
        ctx.violation({"kind": "replay", "clause": clause, "at_pathway": at, "pathways_returned": len(plist),
                       "explained_fraction": float(fluxes.sum() / total), "requested_fraction": 1 - 1e-10,
                       "case": "conserved flow 0 -> %d on the complete DAG over %d states (integer route weights, seed 17), "
                               "paths([0], [%d], F) with the defaults" % (n - 1, n, n - 1),
                       "how": "Paths.tla clause evaluated on the returned pathways"},
                      key="paths/subtract/conserved/many-paths/%s" % clause)
    ctx.notes["many_paths_case"] = {"states": n, "pathways": len(plist), "wall_s": round(time.time() - t0, 1)}


def run(ctx):
    plan = PLAN[ctx.tier]
    ctx.rule = ("a graph counts when a source->sink path exists; a recorded run counts when the real `paths` "
                "reported >= 2 pathways; distinct by (family, matrix, sources, sinks, scheme, num_paths, cutoff)")
    ctx.assumptions += [
        "non-negative weights on an integer (or k/8, k/10) lattice, so float arithmetic in the code is exact",
        "sources and sinks non-empty, disjoint, without duplicates",
        "flux_cutoff c is passed to the code as c - 1e-10 (as its default 1 - 1e-10); the 'just above c' cutoffs as c + 2e-6 (far above float32 rounding, far below the gap between distinct attainable fractions)",
        "dense numpy inputs only: top_path/paths raise on scipy.sparse inputs (docstring says np.ndarray)",
        "exhaustive within the listed families only; for n > 5 the optimum in Trace_Paths is the "
        "thresholded-reachability definition, shown equal to the brute force by TLC on the families"]
    b = core.build_repo()
    core.activate(b)
    import enspara.tpt  # noqa: imported before the pool is forked
    d = core.spec_tmp(SPEC_DIR)
    workers = Workers()
    t0 = [__import__("time").time()]

    def dbg(msg):
        if os.environ.get("VERIF_DEBUG"):
            print("[c17 %.1fs] %s" % (__import__("time").time() - t0[0], msg), flush=True)
    ex = ThreadPoolExecutor(10)
    submitted = []   # (job, expect_ok, future) in accounting order

    def submit(job, expect_ok=True):
        j = {k: v for k, v in job.items() if k != "label"}
        fut = ex.submit(core.run_tlc, j.pop("module"), j.pop("cfg"), j.pop("cwd"), **j)
        submitted.append((job, expect_ok, fut))
        return fut

    try:
        # ---- launch: emitters first (critical path), then the exhaustive runs
        wjobs = [widest_jobs(d, fam, w, wk) for fam, w, wk in plan["widest"]]
        emit_f = [[submit(e) for e in es] for _, es in wjobs]
        for x, _ in wjobs:
            submit(x)
        for fam, kind, w, sch, nps, cuts, wk in plan["paths"]:
            invs = P_INVS + [P_BN_CONS]
            submit(paths_job(d, fam, kind, w, sch, nps, cuts, wk, invs, coverage=True))
        expect_f = []
        for fam, kind, w, inv, key in plan["expect"]:
            j = paths_job(d, fam, kind, w, ["bottleneck"], [NONE], [FULL], 2, [inv], tag="cex")
            expect_f.append((inv, key, j, submit(j, expect_ok=False)))
        for fam, kind, w, num in plan["simulate"]:
            # on 6 nodes bottleneck removal over-explains conserved flows too (see `expect`)
            invs = P_INVS if FAM[fam]["NN"] > 5 else P_INVS + [P_BN_CONS]
            submit(paths_job(d, fam, kind, w, BOTH, ALL_NP, ALL_CUT, 3, invs, tag="simulate",
                             simulate="num=%d" % num, seed=ctx.seed))

        # ---- pattern A: every emitted graph into the real top_path
        jobs = []
        allruns = [(s, n_, cu[0], cu[1], cu[2]) for s in BOTH for n_ in ALL_NP for cu in ALL_CUT]
        for fx in FIXED:
            jobs.append(dict(W=fx["W"], scale=fx["scale"], srcs=fx["srcs"], snks=fx["snks"],
                             family="fixed-" + fx["name"], runs=allruns, forms=("f64-F", "f32", "view")))
        for (fam, w, _), futs in zip(plan["widest"], emit_f):
            cases = []
            for fut in futs:
                r = fut.result()
                if r.error:
                    raise core.MachineryError("emit %s: %s" % (fam, r.error))
                cases += [p for t, p in r.prints if t == "CASE"]
            if len(cases) != (w + 1) ** len(FAM[fam]["edges"]):
                raise core.MachineryError("emit %s: %d cases" % (fam, len(cases)))
            dbg("emitted %s: %d cases (%.1fs)" % (fam, len(cases), r.wall))
            res = workers.map(replay_top, cases)
            dbg("replayed %s" % fam)
            for c, bad in zip(cases, res):
                nontriv = c["reach"] and len(c["opt"]) >= 1
                ctx.case((fam, str(c["W"])) if nontriv else None,
                         sample=dict(c, family=fam) if nontriv and len(c["opt"]) > 1 and len(ctx.samples) < 2 else None)
                ctx.traces += 1
                for what, form, detail in bad:
                    ctx.violation({"kind": "replay-top_path", "family": fam, "form": form, "case": c,
                                   "what": what, "detail": detail,
                                   "how": "top_path(srcs, snks, W) vs WidestPath.tla OptPaths/Best"},
                                  key="top_path/%s" % what)
            every = plan["full_every"].get(fam, 1)
            fmax = plan["full_maxw"].get(fam, 0)
            for k, c in enumerate(cases):
                full = (k % every == 0) or max(max(row) for row in c["W"]) <= fmax
                runs = [(s, n_, cu[0], cu[1], cu[2]) for s in BOTH for n_ in (ALL_NP if full else [NONE])
                        for cu in (ALL_CUT if full else [FULL])]
                jobs.append(dict(W=c["W"], scale=1, srcs=c["srcs"], snks=c["snks"], family=fam, runs=runs,
                                 forms=("f64-F", "i64", "f32", "view") if k % 16 == 0 else ()))
        for rc in random_cases(ctx.seed, plan["random"]):
            jobs.append(dict(rc, runs=allruns, forms=("f64-F", "f32")))

        # ---- pattern B: record the real `paths`, let TLC judge
        recorded = workers.map(record_case, jobs, chunk=50)
        dbg("recorded %d cases, %d runs" % (len(recorded), sum(len(c["runs"]) for c in recorded)))
        subs = validate(ctx, d, recorded, submit, "paths")
        n_bad = {}
        for part, fut in subs:
            r = fut.result()
            dbg("trace chunk done (%.1fs)" % r.wall)
            if r.error:
                raise core.MachineryError("trace validation: %s" % r.error)
            verdicts = {(v["tid"], v["rid"]): v for t, v in r.prints if t == "VERDICT"}
            for ti, c in enumerate(part):
                for ri, run_ in enumerate(c["runs"]):
                    ctx.traces += 1
                    ident = (c["family"], str(c["W"]), str(c["srcs"]), str(c["snks"]), run_["scheme"],
                             run_["numpaths"], run_["cnum"], run_["cden"], run_.get("cst", 0), run_["form"])
                    if "raised" in run_:
                        ctx.case(None)
                        ctx.violation({"kind": "paths-raised", "case": {k: c[k] for k in ("W", "srcs", "snks", "scale", "family")},
                                       "run": run_}, key="paths/raised/%s/%s" % (run_["scheme"], run_["raised"].split(":")[0]))
                        continue
                    v = verdicts.get((ti + 1, ri + 1))
                    if v is None:
                        raise core.MachineryError("no verdict for trace %d run %d of %s" % (ti + 1, ri + 1, r.cmd))
                    nontriv = len(run_["paths"]) >= 2
                    ctx.case(ident if nontriv else None,
                             sample=dict(W=c["W"], srcs=c["srcs"], snks=c["snks"], run=run_)
                             if nontriv and run_["scheme"] == "subtract" and len(ctx.samples) < 5 else None)
                    failed = sorted(v["failed"])
                    if failed:
                        key = _key(run_["scheme"], v["tptflow"], failed)
                        n_bad[key] = n_bad.get(key, 0) + 1
                        ctx.violation({"kind": "trace-rejected", "failed_clauses": failed,
                                       "tptflow": v["tptflow"], "consumed": v["consumed"],
                                       "case": {k: c[k] for k in ("W", "srcs", "snks", "scale", "family")},
                                       "run": run_,
                                       "how": "tpt.paths(srcs, snks, W/scale, remove_path=scheme, num_paths, "
                                              "flux_cutoff=cnum/cden-1e-10, or +2e-6 for the just-above cutoffs) validated by Trace_Paths.tla"},
                                      key=key)
        ctx.notes["rejected_runs_by_key"] = n_bad
        ctx.notes["recorded_cases"] = len(recorded)
        if ctx.tier == "thorough":
            many_paths_part(ctx)

        # ---- accounting of every TLC run (in submission order)
        for job, expect_ok, fut in submitted:
            r = fut.result()
            dbg("%s: %.1fs, %d distinct" % (job.get("label"), r.wall, r.distinct))
            if "simulate" in job:
                import re
                m1 = re.search(r"(\d+) states checked, (\d+) traces generated", r.stdout)
                if m1:
                    ctx.notes.setdefault("simulation_runs", []).append(
                        {"label": job.get("label"), "states_checked": int(m1.group(1)), "behaviours": int(m1.group(2))})
                    ctx.transitions += int(m1.group(1))
            ctx._account(r, job["module"], job["cfg"], job.get("label"), expect_ok)
        # design-level counterexamples that TLC must reproduce
        for inv, key, job, fut in expect_f:
            r = fut.result()
            if r.violated != inv:
                raise core.MachineryError("expected design-level counterexample to %s not reproduced (%s)"
                                          % (inv, r.violated or r.error or "no error"))
            tr = r.stdout[r.stdout.find("Error:"):][:5000]
            ctx.notes.setdefault("design_level_counterexamples", []).append({"invariant": inv, "job": job["label"]})
            ctx.violation({"kind": "model", "module": job["module"], "violated": inv, "tlc_trace": tr,
                           "what": "Paths.tla (any widest path per round, bottleneck removal) violates "
                                   "SumWithinTotal on this class of inputs"}, key=key)
        # vacuity: every action of the exhaustive runs fired
        for run_ in ctx.tlc_runs:
            cov = run_.get("coverage") or {}
            if "exhaustive" in run_["label"] and cov:
                # Gen is the sampling step of the simulation-only families
                dead = [a for a, n_ in cov.items() if n_ == 0 and a[0].isupper() and a not in ("Gen", "Stutter")]
                if dead:
                    raise core.MachineryError("vacuous run %s: actions never fired: %s" % (run_["label"], dead))
        ctx.exhaustive = True
    finally:
        workers.close()
        ex.shutdown(wait=False, cancel_futures=True)


def replay(ctx, path):
    rec = json.load(open(path))
    b = core.build_repo()
    core.activate(b)
    if rec.get("kind") == "replay-top_path":
        bad = replay_top(rec["case"])
        ctx.case(("replay",), sample=rec["case"])
        ctx.traces += 1
        for what, form, detail in bad:
            ctx.violation({"kind": "replay-top_path", "form": form, "case": rec["case"], "what": what,
                           "detail": detail}, key="top_path/%s" % what)
        return
    if rec.get("kind") in ("trace-rejected", "paths-raised"):
        c, run_ = rec["case"], rec["run"]
        job = dict(W=c["W"], scale=c["scale"], srcs=c["srcs"], snks=c["snks"], family=c["family"],
                   runs=[(run_["scheme"], run_["numpaths"], run_["cnum"], run_["cden"], run_.get("cst", 0))],
                   forms=() if run_["form"] == "f64" else (run_["form"],))
        got = record_case(job)
        if run_["form"] != "f64":
            got["runs"] = [r for r in got["runs"] if r["form"] == run_["form"]] or got["runs"][:1]
        d = core.spec_tmp(SPEC_DIR)
        ex = ThreadPoolExecutor(1)
        subs = []

        def submit(j):
            jj = {k: v for k, v in j.items() if k != "label"}
            f = ex.submit(core.run_tlc, jj.pop("module"), jj.pop("cfg"), jj.pop("cwd"), **jj)
            subs.append((j, f))
            return f
        raised = [r for r in got["runs"] if "raised" in r]
        for r in raised:
            ctx.violation({"kind": "paths-raised", "case": c, "run": r},
                          key="paths/raised/%s/%s" % (r["scheme"], r["raised"].split(":")[0]))
        got["runs"] = [r for r in got["runs"] if "raised" not in r]
        ctx.case(("replay",), sample=got)
        if got["runs"]:
            for part, fut in validate(ctx, d, [got], submit, "replay"):
                r = fut.result()
                ctx._account(r, "Trace_Paths", "replay", "Trace_Paths replay", True)
                for t, v in r.prints:
                    if t == "VERDICT":
                        ctx.traces += 1
                        rr = got["runs"][v["rid"] - 1]
                        print("verdict: failed=%s tptflow=%s paths=%s fluxes=%s" % (
                            v["failed"], v["tptflow"], rr["paths"], rr["fluxes"]))
                        if v["failed"]:
                            ctx.violation({"kind": "trace-rejected", "failed_clauses": sorted(v["failed"]),
                                           "case": c, "run": rr}, key=_key(rr["scheme"], v["tptflow"], sorted(v["failed"])))
        return
    print("replay of a model-level record: re-running the check")
    run(ctx)
