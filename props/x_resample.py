"""x_resample -- bootstrap resampling, implied timescales and synthetic data (a part of C03, grown
beyond the listed properties, DESIGN 10 item 3).

Spec: specs/msm/Resample.tla (reuses specs/msm/Counts.tla -- the cardinality definition of a count
matrix -- and the definition-level pipeline counts -> trim -> builder of specs/msm/MSMObj.tla by INSTANCE).

The module states what each function is DEFINED to compute and carries, next to the definition, a
step machine transcribed from the code (Mode selects it):
  boot  enspara.msm.bootstrap.bootstrap          the random source (np.random.choice) is a nondeterministic
                                                 action: TLC chooses every draw
  its   enspara.msm.timescales.implied_timescales / calc_imp_times
                                                 counts -> trim -> builder -> exact rational spectrum ->
                                                 interval of rationals for -lag/ln(lambda) from a ln table
  ens   enspara.msm.synthetic_data.synthetic_ensemble     exact vector-matrix products
  traj  enspara.msm.synthetic_data.synthetic_trajectory   the generator's uniforms are chosen by TLC, the
                                                 path follows by the inverse-CDF rule
TLC checks machine = definition (up to the named deviation classes) and the laws on every input of the
scope and prints every input with the expected observables (BOOT / ITS / ENS / TRAJ lines).

This driver replays every printed case into the real functions and compares with what TLC printed; it
holds no oracle of its own.  The random sources are replaced WITHOUT editing the repository:
  * inside enspara.msm.bootstrap the name `np` is a proxy whose random.choice returns the draws TLC chose
    (and records what was requested: population, size, replacement), the name `mp` is a proxy whose Pool
    runs initializer and map in-process (as props/c15.py does for enspara.util.load); a sample of the
    cases also runs through the real multiprocessing.Pool with 2 workers (the draws are made in the
    parent, so they are TLC's there too), under an alarm;
  * inside enspara.msm.synthetic_data the name `np` is a proxy whose random.default_rng returns a
    numpy Generator subclass whose random() hands out the uniforms TLC chose: Generator.choice -- numpy's
    own inverse-CDF code -- consumes them.
Floats are compared with the printed rationals (1e-9 relative), timescales with the printed interval of
rationals, integers exactly.  The only numeric knowledge here is the float logarithm used to CHECK the ln
table of the module (a failure is a machinery failure).

GATED lists the deviation classes of the pinned tree (decisions in the header of Resample.tla).  A gated
class is not emitted (its-*, boot-*, traj-sparse-array) or is replayed under a compatibility rule
(traj-size-one-assignment), so that the part stays green while the defects are reported.  Set the
environment variable XRS_OPEN=name,name (or "all") to open classes: the cases are then emitted with the
DEFINITION's expectation and the part reports them as violations (keys boot/ragged-data/..,
its/its-ntimes-zero/.., its/its-ragged-rows/.., traj/size-one-assignment/.., traj/csr_array/..).

Scope (quick; thorough in brackets); TLC workers = 1 per run, at most 4 runs at once, 4 replay processes:
  boot  2 trajectories of 1..2 [1..3] frames x n_trials in {0, 2}, every draw history; 2 trajectories of
        1..3 frames x 1 trial x lag 2 [1, 2] x sliding on/off; 3 trajectories of 2 [1..2] frames x 1 trial
        (27 draws); max_n_states None / S; ndarray (-1 padded) and RaggedArray containers; int64/int32/int16;
        12 [48] of the rectangular cases also through the real multiprocessing.Pool (2 workers)
  its   2 states: every trajectory of 2..5 [2..6] frames and every pair of 1..2 frames x 4 lag lists
        (<<2,1>>, <<1,3,2>>, <<1,9>> = longer than the data, <<>>); metastable "runs" trajectories
        0^a 1^b 0^c (1^d), runs 1..3, x 2 lag lists; 3 states: runs trajectories over 3 [4] patterns,
        runs 1..2, n_times None / 2; restricted-growth trajectories of 3..4 [3..5] frames x 4 lag lists with
        n_times None / 5 / 0; each x normalize / transpose x sliding x trim; assignments as -1 padded
        ndarray / RaggedArray, lag list as list / tuple / ndarray, method as builder / wrapped callable
  ens   3-state chains A/2 x 0/1 init vectors x 3 [1..3] steps; 2-state chains A/4 x init 0..3 x {1,2,4}
        steps; 2-state chains A/3 x init 0..2 x 3 steps; without / with an observable; init_pops as float64
        probabilities, float64 / int64 / int32 walker counts, float32 (dyadic), bool; T dense / csr_matrix /
        csr_array
  traj  3-state chains A/2, uniforms k/4, n_steps {1,3} [{1,2,3}]; 2-state chains A/4, uniforms k/8,
        n_steps {2,3}; 2-state chains A/3, uniforms k/6, n_steps {1,3} (boundary draws are float-ambiguous:
        compared up to there); T dense / csr_matrix; start_state int / np.int64
Measured (quick, unchanged tree, shared box): 13 TLC runs, 214 k distinct states, 37 k cases replayed
(about 160 k calls), 0 mismatches, 65 s wall (TLC 37 s, replay 26 s).

Hook: `from props import x_resample; x_resample.run_part(ctx)` at the end of props/c03.py run() (not done
here: this part touches only its own two files).  Stand-alone:
  cd /verif && VERIF_OUT=/tmp/xrs_out /venv/bin/python -c "import sys; sys.path.insert(0,'.'); from harness import \
  core; from props import x_resample; ctx=core.Ctx('C03','quick',0); x_resample.run_part(ctx); print(ctx.violations)"
"""
import importlib
import json
import math
import multiprocessing
import os
import signal
import time
import warnings

import numpy as np

from harness import core

SPEC_DIR = os.path.join(core.SPECS, "msm")
NONE = 1000000

# Deviation classes of the pinned tree (Resample.tla, header).  Remove a name (or XRS_OPEN=name) to replay the
# class against the definition.
GATED = (
    # bootstrap(func, RaggedArray with rows of different lengths, ..): data.shape is (n, None), the worker
    # initialiser's reshape raises TypeError, multiprocessing.Pool re-spawns the dying workers for ever
    "boot-ragged-data",
    # implied_timescales with n_times == 0 after the cap (requested 0 / one observed state): eigenspectrum's
    # ValueError reaches `except ArpackNoConvergence`, a name the module never imports -> NameError
    "its-ntimes-zero",
    # implied_timescales(trim=True) when the trimmed models of two lags differ in size: np.array(list of rows of
    # different lengths) raises ValueError although every row is defined
    "its-ragged-rows",
    # synthetic_trajectory, n_steps >= 2: traj[i+1] = rng.choice(states, 1, p=p) stores a shape-(1,) array into an
    # int element; NumPy >= 2.4 raises ValueError.  While gated, the path array gets the pre-2.4 rule (see _LegacyInt)
    "traj-size-one-assignment",
    # synthetic_trajectory(T = scipy sparse ARRAY): isspmatrix() is False, the dense branch hands a sparse row to
    # rng.choice -> TypeError
    "traj-sparse-array",
)


def gated():
    o = os.environ.get("XRS_OPEN", "")
    opened = set(GATED) if o.strip() == "all" else {x.strip() for x in o.split(",") if x.strip()}
    return tuple(g for g in GATED if g not in opened)


INV = {
    "boot": ["TypeOK", "BootMachineIsDef", "BootRaggedRaises", "BootDrawsAreRequests", "BootSampleShape", "BootLaws"],
    "its": ["TypeOK", "ItsMachineInDef", "ItsRaises", "ItsRowsFollowLagList", "ItsRowLength", "ItsSpectrumIsCharPoly",
            "ItsModelRows", "ItsSpectrumLaws", "ItsTimescaleLaws", "ItsLagTooLong"],
    "ens": ["TypeOK", "EnsMachineIsDef", "EnsShape", "EnsLaws"],
    "traj": ["TypeOK", "TrajMachineIsDef", "TrajShape", "TrajAlongEdges", "TrajRuleIsSampler"],
}
# actions that must have fired somewhere in the runs of a mode (vacuity control; the module prints the set of
# actions taken on the way to every final state, see the variable `fired`)
MUST_FIRE = {
    "boot": ["B_Share", "B_Draw", "B_PoolInit", "B_PoolInitRagged", "B_Strap", "B_Return"],
    "its": ["I_Enter", "I_Counts", "I_Trim", "I_Build", "I_EigErr", "I_Eig", "I_Times", "I_Return", "I_ReturnRagged"],
    "ens": ["E_Enter", "E_Step", "E_Return"],
    "traj": ["J_Enter", "J_Step", "J_Return"],
}
TAG = {"boot": "BOOT", "its": "ITS", "ens": "ENS", "traj": "TRAJ"}


def consts(mode, **kw):
    base = dict(Mode='"%s"' % mode, Emit="TRUE", Gated="{" + ", ".join('"%s"' % g for g in gated()) + "}",
                S=2, BootN="{2}", BootMinLen=1, BootMaxLen=2, BootTrials="{1}", BootLags="{1}", BootSlidings="{TRUE}",
                BootNs="{0, 2}", ItsFamily='"all"', ItsMinLen=2, ItsMaxLen=4, ItsPairLen=0, ItsPatternIds="{1}",
                ItsMaxRun=2, ItsLagIds="{1}", ItsNTimes="{%d}" % NONE, ChainN=2, ChainD=2, EnsMaxP0=1, EnsSteps="{1}",
                TrajSteps="{1}", TrajU=4)
    base.update(kw)
    return {k: str(v) for k, v in base.items()}


def part_jobs(tier):
    th = tier == "thorough"
    J = [
        ("boot: 2 trajs of 1..%d frames, n_trials {0,2}, all draw histories" % (3 if th else 2), "boot",
         consts("boot", BootMaxLen=3 if th else 2, BootTrials="{0, 2}")),
        ("boot: 2 trajs of 1..3 frames, 1 trial, lag 2, sliding on/off", "boot",
         consts("boot", BootMaxLen=3, BootLags="{1, 2}" if th else "{2}", BootSlidings="{TRUE, FALSE}")),
        ("boot: 3 trajs of %s frames, 1 trial (27 draws)" % ("1..2" if th else "2"), "boot",
         consts("boot", BootN="{3}", BootMinLen=1 if th else 2, BootMaxLen=2, BootNs="{2}")),
        ("its: 2 states, all trajs of 2..%d frames + pairs of 1..2, 4 lag lists" % (6 if th else 5), "its",
         consts("its", ItsMaxLen=6 if th else 5, ItsPairLen=2, ItsLagIds="{1, 2, 3, 4}")),
        ("its: 2 states, runs 0^a 1^b 0^c (1^d), runs 1..3, lag lists <<2,1>> <<1,3,2>>", "its",
         consts("its", ItsFamily='"runs"', ItsPatternIds="{2, 3}", ItsMaxRun=3, ItsLagIds="{1, 2}")),
        ("its: 3 states, runs over %d patterns, runs 1..2, n_times None/2" % (4 if th else 3), "its",
         consts("its", S=3, ItsFamily='"runs"', ItsPatternIds="{4, 5, 6, 7}" if th else "{4, 5, 6}", ItsMaxRun=2,
                ItsLagIds="{1, 2}", ItsNTimes="{%d, 2}" % NONE)),
        ("its: 3 states, restricted-growth trajs of 3..%d frames, n_times None/5/0" % (5 if th else 4), "its",
         consts("its", S=3, ItsFamily='"rgs"', ItsMinLen=3, ItsMaxLen=5 if th else 4, ItsLagIds="{1, 3, 4, 5}",
                ItsNTimes="{%d, 5, 0}" % NONE)),
        ("ens: 3-state chains A/2, 0/1 inits, %s steps" % ("{1,2,3}" if th else "3"), "ens",
         consts("ens", ChainN=3, ChainD=2, EnsMaxP0=1, EnsSteps="{1, 2, 3}" if th else "{3}")),
        ("ens: 2-state chains A/4, inits 0..3, {1,2,4} steps", "ens",
         consts("ens", ChainN=2, ChainD=4, EnsMaxP0=3, EnsSteps="{1, 2, 4}")),
        ("ens: 2-state chains A/3, inits 0..2, 3 steps", "ens",
         consts("ens", ChainN=2, ChainD=3, EnsMaxP0=2, EnsSteps="{3}")),
        ("traj: 3-state chains A/2, uniforms k/4, n_steps %s" % ("{1,2,3}" if th else "{1,3}"), "traj",
         consts("traj", ChainN=3, ChainD=2, TrajU=4, TrajSteps="{1, 2, 3}" if th else "{1, 3}")),
        ("traj: 2-state chains A/4, uniforms k/8, n_steps {2,3}", "traj",
         consts("traj", ChainN=2, ChainD=4, TrajU=8, TrajSteps="{2, 3}")),
        ("traj: 2-state chains A/3, uniforms k/6, n_steps {1,3}", "traj",
         consts("traj", ChainN=2, ChainD=3, TrajU=6, TrajSteps="{1, 3}")),
    ]
    return J


# --------------------------------------------------------------------------
# stand-ins for names inside the modules under test (nothing in /repo is edited)

class _NPProxy:
    """stands in for the name `np` inside a module: everything is numpy's except the attributes given"""

    def __init__(self, **over):
        self.__dict__.update(over)

    def __getattr__(self, name):
        return getattr(np, name)


class _Unmodelled(Exception):
    """the code asked the random source for something the specification does not model"""


class _TLCDraws:
    """stands in for np.random inside enspara.msm.bootstrap: index draws come from TLC, requests are recorded"""

    def __init__(self, draws):
        self.draws = [list(d) for d in draws]
        self.requests = []

    def _next(self, pop, size, replace):
        self.requests.append({"pop": pop, "size": size, "replace": replace})
        if not self.draws:
            raise _Unmodelled("more draws requested than trials")
        return np.array(self.draws.pop(0), dtype=np.int64)

    def choice(self, a, size=None, replace=True, p=None):
        if p is not None:
            raise _Unmodelled("non-uniform choice")
        a = np.asarray(a)
        if a.ndim == 0:
            pop = int(a)
        elif a.ndim == 1 and np.array_equal(a, np.arange(len(a))):
            pop = len(a)
        else:
            raise _Unmodelled("choice over %r" % (a,))
        return self._next(pop, int(np.prod(size)) if size is not None else 1, bool(replace))

    def randint(self, low, high=None, size=None, dtype=int):
        if high is None:
            low, high = 0, low
        if low != 0:
            raise _Unmodelled("randint with low != 0")
        return self._next(int(high), int(np.prod(size)) if size is not None else 1, True)

    def __getattr__(self, name):
        raise _Unmodelled("np.random.%s" % name)


class _InProcessPool:
    def __init__(self, processes=None, initializer=None, initargs=(), maxtasksperchild=None):
        if initializer is not None:
            initializer(*initargs)

    def map(self, func, iterable, chunksize=None):
        return [func(x) for x in iterable]

    def terminate(self):
        pass

    close = join = terminate

    def __enter__(self):
        return self

    def __exit__(self, *a):
        return False


class _ShimMP:
    """stands in for the name `mp` inside enspara.msm.bootstrap: Pool runs in-process, the rest is multiprocessing's"""
    Pool = _InProcessPool

    def __getattr__(self, name):
        return getattr(multiprocessing, name)


class _TLCGenerator(np.random.Generator):
    """a numpy Generator whose uniforms are the ones TLC chose; Generator.choice (numpy's inverse-CDF code) calls
    self.random(shape) for them"""

    def __init__(self, uniforms):
        super().__init__(np.random.PCG64(0))
        self._us = list(uniforms)
        self.sizes = []

    def random(self, size=None, dtype=np.float64, out=None):
        n = 1 if size is None else int(np.prod(size))
        self.sizes.append(n)
        if len(self._us) < n:
            raise _Unmodelled("more uniforms requested than steps")
        v = [self._us.pop(0) for _ in range(n)]
        return v[0] if size is None else np.array(v, dtype=np.float64).reshape(size)


class _LegacyInt(np.ndarray):
    """an array with NumPy < 2.4's element assignment: a size-1 array may be stored into one element
    (compatibility rule for the gated class traj-size-one-assignment)"""

    def __setitem__(self, k, v):
        if isinstance(v, np.ndarray) and v.ndim > 0 and v.size == 1:
            v = v.reshape(())
        super().__setitem__(k, v)


class _Patched:
    def __init__(self, mod, **names):
        self.mod, self.names, self.saved = mod, names, {}

    def __enter__(self):
        for k, v in self.names.items():
            self.saved[k] = getattr(self.mod, k)
            setattr(self.mod, k, v)
        return self

    def __exit__(self, *a):
        for k, v in self.saved.items():
            setattr(self.mod, k, v)
        return False


def _exc(ex):
    return "%s: %s" % (type(ex).__name__, str(ex)[:200])


def _close(x, num, den, tol=1e-9):
    try:
        x = float(x)
    except Exception:
        return False
    return math.isfinite(x) and core.close(x, num, den, tol)


# --------------------------------------------------------------------------
# replay: bootstrap

def _identity(d, **kw):
    """func of the identity replay: what the function was handed (module level: the real pool pickles it)"""
    return np.asarray(d).tolist(), {k: (v if not isinstance(v, np.generic) else v.item()) for k, v in kw.items()}


def _pad(rows, width=None):
    w = max(len(r) for r in rows) if width is None else width
    return [list(r) + [-1] * (w - len(r)) for r in rows]


def _boot_forms(c):
    from enspara import ra
    rows = c["rows"]
    if c["container"] == "ndarray":
        return [("ndarray-" + np.dtype(dt).name, (lambda dt=dt: np.array(_pad(rows), dtype=dt)))
                for dt in (np.int64, np.int16, np.int32)]
    return [("RaggedArray-" + np.dtype(dt).name, (lambda dt=dt: ra.RaggedArray([np.array(r, dtype=dt) for r in rows])))
            for dt in (np.int64, np.int32)]


def _snapshot(data):
    return [np.array(data[k]).copy() for k in range(len(data))], str(getattr(data, "dtype", None))


def _boot_call(bs, func, data, c, draws, kwargs, pool):
    rnd = _TLCDraws(draws)
    names = {"np": _NPProxy(random=rnd)}
    if pool == "in-process":
        names["mp"] = _ShimMP()
    with _Patched(bs, **names):
        if pool == "in-process":
            r = bs.bootstrap(func, data, c["trials"], n_procs=1, **kwargs)
        else:
            def on_alarm(sig, frm):
                raise TimeoutError("bootstrap did not return within 60 s")
            old = signal.signal(signal.SIGALRM, on_alarm)
            signal.alarm(60)
            try:
                r = bs.bootstrap(func, data, c["trials"], n_procs=2, **kwargs)
            finally:
                signal.alarm(0)
                signal.signal(signal.SIGALRM, old)
    return r, rnd


def replay_boot(c, pool="in-process", only_first_form=False):
    bs = importlib.import_module("enspara.msm.bootstrap")
    from enspara.msm.transition_matrices import assigns_to_counts
    rows, n, bad = c["rows"], len(c["rows"]), []
    cls = "ragged-data" if c["cls"] else "rect"
    width = max(len(r) for r in rows)
    ragged_cls = bool(c["cls"])
    kwc = {"lag_time": c["lag"], "sliding_window": c["sliding"], "max_n_states": None if c["ns"] == 0 else c["ns"]}
    forms = _boot_forms(c)
    if only_first_form:
        forms = forms[:1]
    else:       # every case runs int64 and one narrower dtype (which one alternates with the case)
        forms = [forms[0], forms[1 + (sum(map(len, rows)) + len(c["draws"])) % (len(forms) - 1)]]
    for form, mk in forms:
        what = {"form": form, "pool": pool, "rows": rows, "draws": c["draws"], "n_trials": c["trials"]}
        key = "boot/%s/%s/" % (cls, "real-pool" if pool != "in-process" else "shim-pool")
        data = mk()
        before = _snapshot(data)
        # ---- func = identity: the chosen trajectories in the chosen order, the kwargs, the requests
        try:
            r, rnd = _boot_call(bs, _identity, data, c, c["draws"], {"tag": 7}, pool)
        except Exception as ex:
            bad.append((key + "raised", dict(what, call="bootstrap(identity, data, n_trials, tag=7)", raised=_exc(ex))))
            continue
        if not isinstance(r, list) or len(r) != c["trials"]:
            bad.append((key + "number-of-results", dict(what, got=repr(r)[:300], expected=c["trials"])))
            continue
        for t, (got, e) in enumerate(zip(r, c["res"])):
            exp = e["sample"] if ragged_cls else _pad(e["sample"], width)
            g = [list(x) for x in got[0]] if isinstance(got[0], list) else got[0]
            if g != exp:
                bad.append((key + "sample", dict(what, trial=t, got=g, expected=exp)))
            if got[1] != {"tag": 7}:
                bad.append((key + "kwargs", dict(what, trial=t, got=got[1])))
        if rnd.requests != [c["req"]] * c["trials"] or rnd.draws:
            bad.append((key + "draw-requests", dict(what, got=rnd.requests, expected=[c["req"]] * c["trials"],
                                                    unused_draws=rnd.draws)))
        # ---- func = assigns_to_counts: the sum over the chosen multiset
        try:
            r, rnd = _boot_call(bs, assigns_to_counts, data, c, c["draws"], kwc, pool)
            got = [np.asarray(x.toarray()).tolist() for x in r]
        except Exception as ex:
            bad.append((key + "raised", dict(what, call="bootstrap(assigns_to_counts, data, n_trials, **%r)" % kwc,
                                             raised=_exc(ex))))
            continue
        exp = [e["C"] for e in c["res"]]
        if got != exp:
            bad.append((key + "counts", dict(what, kwargs=kwc, got=got, expected=exp)))
        after = _snapshot(data)
        if after[1] != before[1] or len(after[0]) != len(before[0]) or \
                not all(np.array_equal(p, q) and p.dtype == q.dtype for p, q in zip(before[0], after[0])):
            bad.append((key + "input-modified", what))
    return bad


# --------------------------------------------------------------------------
# replay: implied_timescales

def _in_interval(x, lo, hi):
    try:
        x = float(x)
    except Exception:
        return False
    return math.isfinite(x) and lo[0] / lo[1] * (1 - 1e-12) <= x <= hi[0] / hi[1] * (1 + 1e-12)


def replay_its(c):
    from enspara import ra
    from enspara.msm import builders
    tsm = importlib.import_module("enspara.msm.timescales")
    trajs, lags, rows = c["trajs"], c["lags"], c["rows"]
    method = {"normalize": builders.normalize, "transpose": builders.transpose}[c["method"]]
    cls = c["cls"] or "defined"
    kw = {"sliding_window": c["sliding"], "trim": c["trim"]}
    if c["ntimes"] != NONE:
        kw["n_times"] = c["ntimes"]
    forms = [("ndarray-int64,lags-list", lambda: np.array(_pad(trajs), dtype=np.int64), lambda: list(lags), method),
             ("RaggedArray-int32,lags-tuple", lambda: ra.RaggedArray([np.array(t, dtype=np.int32) for t in trajs]),
              lambda: tuple(lags), method),
             ("ndarray-int32,lags-ndarray,method-wrapped", lambda: np.array(_pad(trajs), dtype=np.int32),
              lambda: np.array(lags, dtype=np.int64), lambda C: method(C))]
    bad = []
    for form, mka, mkl, meth in forms:
        a, lg = mka(), mkl()
        before = _snapshot(a)
        what = {"form": form, "call": "implied_timescales(%r, %r, builders.%s, %s)" % (
            trajs, list(lags), c["method"], ", ".join("%s=%r" % kv for kv in sorted(kw.items())))}
        key = "its/%s/" % cls
        try:
            with warnings.catch_warnings():
                warnings.simplefilter("ignore")
                out = tsm.implied_timescales(a, lg, meth, **kw)
        except Exception as ex:
            bad.append((key + "raised", dict(what, raised=_exc(ex), expected_row_lengths=[len(r) for r in rows])))
            continue
        try:
            got = [list(np.asarray(out[k], dtype=float).ravel()) for k in range(len(out))]
        except Exception as ex:
            bad.append((key + "return-shape", dict(what, got=repr(out)[:300], problem=_exc(ex))))
            continue
        if len(got) != len(rows) or [len(g) for g in got] != [len(r) for r in rows]:
            bad.append((key + "return-shape", dict(what, got_shape=str(getattr(out, "shape", None)),
                                                   expected_rows=len(rows), expected_row_lengths=[len(r) for r in rows])))
            continue
        wrong = [(k, j) for k, r in enumerate(rows) for j, e in enumerate(r)
                 if e["k"] == "v" and not _in_interval(got[k][j], e["lo"], e["hi"])]
        if wrong:
            k, j = wrong[0]
            e = rows[k][j]
            bad.append((key + "timescales", dict(
                what, first_mismatch={"row": k, "lag": lags[k], "column": j, "got": got[k][j], "eigenvalue": "%d/%d" % tuple(e["lam"]),
                                      "expected_interval": [e["lo"][0] / e["lo"][1], e["hi"][0] / e["hi"][1]]},
                got=got, n_wrong=len(wrong))))
        after = _snapshot(a)
        if not all(np.array_equal(p, q) for p, q in zip(before[0], after[0])) or list(lg) != list(lags):
            bad.append((key + "input-modified", what))
    return bad


# --------------------------------------------------------------------------
# replay: synthetic_ensemble

def _init_pops(p0, f):
    if f["form"] == "float64":
        return np.array(p0, dtype=np.float64) / f["P"]
    if f["form"] == "float32":
        return (np.array(p0, dtype=np.float32) / np.float32(f["P"])).astype(np.float32)
    if f["form"] == "bool":
        return np.array(p0, dtype=bool)
    return np.array(p0, dtype=f["form"])


def replay_ens(c):
    import scipy.sparse as sp
    sd = importlib.import_module("enspara.msm.synthetic_data")
    A, D, p0, steps, obs = c["A"], c["D"], c["p0"], c["steps"], c["obs"]
    n = len(A)
    Tm = np.array(A, dtype=np.float64) / D
    bad = []
    conts = [("ndarray", lambda: Tm.copy()), ("csr_matrix", lambda: sp.csr_matrix(Tm)), ("csr_array", lambda: sp.csr_array(Tm))]
    # dense and one of the two sparse containers (which one alternates with the case)
    for cont, mk in (conts[0], conts[1 + (sum(map(sum, A)) + sum(p0) + steps + len(obs)) % 2]):
        for f in c["forms"]:
            T = mk()
            init = _init_pops(p0, f)
            init0 = init.copy()
            o = None if not obs else np.array(obs, dtype=np.float64)
            P = f["P"]
            label = "%s%s" % (f["form"], "-walkers" if f["form"] == "float64" and P == 1 and sum(p0) != 1 else "")
            what = {"T": "%r/%d as %s" % (A, D, cont), "init_pops": "%r/%d as %s" % (p0, P, f["form"]), "n_steps": steps,
                    "observable_per_state": obs or None}
            key = "ens/%s/%s/" % (label, "observable" if obs else "populations")
            try:
                with warnings.catch_warnings():
                    warnings.simplefilter("ignore")
                    r = sd.synthetic_ensemble(T, init, steps, o) if o is not None else sd.synthetic_ensemble(T, init, steps)
            except Exception as ex:
                bad.append((key + "raised", dict(what, raised=_exc(ex))))
                continue
            try:
                final, hist = r
                final, hist = np.asarray(final), np.asarray(hist)
                ok = final.shape == (n,) and hist.shape == ((steps,) if obs else (steps, n))
            except Exception:
                ok = False
            if not ok:
                bad.append((key + "return-shape", dict(what, got=repr(r)[:300])))
                continue
            hl = hist.tolist()
            if obs:
                wrong = [t for t, e in enumerate(c["hist"]) if not _close(hl[t], e["v"], e["den"] * P)]
            else:
                wrong = [t for t, e in enumerate(c["hist"]) if not all(_close(hl[t][j], e["v"][j], e["den"] * P) for j in range(n))]
            if wrong:
                e = c["hist"][wrong[0]]
                bad.append((key + "history", dict(what, first_wrong_row=wrong[0], got=hl, got_dtype=str(hist.dtype),
                                                  expected_row="%r/%d" % (e["v"], e["den"] * P))))
            e = c["final"]
            if not all(_close(final[j], e["v"][j], e["den"] * P) for j in range(n)):
                bad.append((key + "final", dict(what, got=final.tolist(), got_dtype=str(final.dtype),
                                                expected="%r/%d" % (e["v"], e["den"] * P))))
            if not np.array_equal(init, init0) or init.dtype != init0.dtype or \
                    not np.array_equal(np.asarray(T.toarray() if sp.issparse(T) else T), Tm):
                bad.append((key + "input-modified", what))
    return bad


# --------------------------------------------------------------------------
# replay: synthetic_trajectory

def replay_traj(c):
    import scipy.sparse as sp
    sd = importlib.import_module("enspara.msm.synthetic_data")
    A, D, steps, U, path, definite = c["A"], c["D"], c["steps"], c["U"], c["path"], c["definite"]
    n = len(A)
    Tm = np.array(A, dtype=np.float64) / D
    makers = {"ndarray": lambda: Tm.copy(), "csr_matrix": lambda: sp.csr_matrix(Tm), "csr_array": lambda: sp.csr_array(Tm)}
    cls = "size-one-assignment" if (c["cls"] and not c["legacy"]) else "path"
    bad = []
    for cont in c["containers"]:
        for start in ((c["start"], np.int64(c["start"])) if cont == "ndarray" else (c["start"],)):
            T = makers[cont]()
            made = []

            def default_rng(seed=None, made=made):
                made.append(_TLCGenerator([u / U for u in c["us"]]))
                return made[-1]
            over = {"random": _NPProxy(default_rng=default_rng)}
            if c["legacy"]:
                over["ones"] = lambda *a, **k: np.ones(*a, **k).view(_LegacyInt)
            what = {"call": "synthetic_trajectory(%r/%d as %s, %r, %d)" % (A, D, cont, start, steps),
                    "uniforms": ["%d/%d" % (u, U) for u in c["us"]],
                    "compatibility": "pre-2.4 element assignment" if c["legacy"] else None}
            key = "traj/%s/%s/" % (cont if cont == "csr_array" else cls, "exact" if c["exact"] else "inexact")
            try:
                with _Patched(sd, np=_NPProxy(**over)), warnings.catch_warnings():
                    warnings.simplefilter("ignore")
                    r = sd.synthetic_trajectory(T, start, steps)
            except Exception as ex:
                bad.append((key + "raised", dict(what, raised=_exc(ex))))
                continue
            if not isinstance(r, np.ndarray) or r.shape != (steps,) or r.dtype.kind not in "iu":
                bad.append((key + "return-shape", dict(what, got=repr(r)[:200], expected_length=steps)))
                continue
            got = r.tolist()
            if got[:definite] != path[:definite]:
                bad.append((key + "path", dict(what, got=got, expected=path, compared_first=definite)))
            elif any(not (0 <= s < n) for s in got) or any(A[got[k]][got[k + 1]] <= 0 for k in range(steps - 1)):
                bad.append((key + "edges", dict(what, got=got)))
            sizes = [s for g in made for s in g.sizes]
            if len(made) != 1 or sizes != [c["req"]["size"]] * c["req"]["draws"] or any(g._us for g in made):
                bad.append((key + "draw-requests", dict(what, generators=len(made), sizes=sizes, expected=c["req"])))
            if not np.array_equal(np.asarray(T.toarray() if sp.issparse(T) else T), Tm):
                bad.append((key + "input-modified", what))
    return bad


REPLAY = {"BOOT": replay_boot, "ITS": replay_its, "ENS": replay_ens, "TRAJ": replay_traj}


def replay_case(tc):
    tag, c = tc
    import logging
    logging.getLogger("enspara").setLevel(logging.ERROR)
    logging.getLogger("enspara.msm.transition_matrices").setLevel(logging.ERROR)
    return REPLAY[tag](c)


# --------------------------------------------------------------------------

class _Reporter:
    """count every mismatch per key; hand at most CAP per key to ctx.violation (core keeps 3 files per key)"""
    CAP = 3

    def __init__(self, ctx):
        self.ctx = ctx
        self.counts = {}
        self.known = {k["key"] for k in ctx.known}

    def __call__(self, record, key):
        n = self.counts.get(key, 0)
        self.counts[key] = n + 1
        if key in self.known or n < self.CAP:
            self.ctx.violation(record, key=key)


def check_bridge(prints, label):
    """the logarithm table printed by TLC against the float logarithm"""
    ln = [p for t, p in prints if t == "LN"]
    if not ln:
        raise core.MachineryError("no LN record from %s" % label)
    tab, scale = ln[0]["table"], ln[0]["scale"]
    for k, v in enumerate(tab, start=1):
        if abs(v - scale * math.log(k)) > 0.5 + 1e-6:
            raise core.MachineryError("Resample.tla Ln6[%d] = %d is not round(%d ln %d)" % (k, v, scale, k))
    return len(tab)


def _case_key(tag, c):
    keep = {"BOOT": ("rows", "container", "trials", "lag", "sliding", "ns", "draws"),
            "ITS": ("trajs", "lags", "method", "sliding", "trim", "ntimes"),
            "ENS": ("A", "D", "p0", "steps", "obs"), "TRAJ": ("A", "D", "start", "steps", "U", "us")}[tag]
    return tag + json.dumps([c[k] for k in keep], sort_keys=True)


def _nontrivial(tag, c):
    if tag == "BOOT":
        return c["trials"] > 0 and any(len(r) > c["lag"] for r in c["rows"])
    if tag == "ITS":
        return any(e["k"] == "v" for r in c["rows"] for e in r)
    if tag == "ENS":
        return c["steps"] > 1
    return c["steps"] > 1


def run_part(ctx):
    ctx.assumptions += [
        "x_resample: the random sources are replaced from outside the repository -- inside enspara.msm.bootstrap the "
        "names np / mp are proxies (np.random.choice returns TLC's draws; Pool runs in-process, a sample of cases also "
        "through the real Pool with 2 workers), inside enspara.msm.synthetic_data np.random.default_rng returns a numpy "
        "Generator whose random() hands out TLC's uniforms",
        "x_resample: implied timescales are compared where the spectrum of the model is rational with 0 < lambda < 1 and "
        "numerator, denominator <= 1024 (interval of rationals from the ln table, relative width 2/(1e6 ln(1/lambda))); "
        "irrational / complex / non-positive eigenvalues are not compared; a case in which two admissible trimmed "
        "components give different rows is not emitted",
        "x_resample: trajectories are non-empty, n_steps >= 1, chains have at most 3 states; a uniform draw on a cdf "
        "boundary of a chain whose denominators are not powers of two ends the compared prefix of the path",
        "x_resample: gated deviation classes (not emitted / compatibility rule): " + (", ".join(gated()) or "none"),
    ]
    b = core.build_repo()
    core.activate(b)
    d = core.spec_tmp(SPEC_DIR)
    report = _Reporter(ctx)

    jobs, meta = [], []
    for k, (label, mode, cs) in enumerate(part_jobs(ctx.tier)):
        name = "xrs%d.cfg" % k
        core.write_cfg(os.path.join(d, name), constants=cs, invariants=INV[mode] + ["EmitInv"],
                       properties=["InputUnchanged"])
        jobs.append(dict(module="Resample", cfg=name, cwd=d, label="x_resample " + label, workers=1,
                         timeout=900 if ctx.tier == "quick" else 3600, java_opts=("-Xmx2g",)))
        meta.append(mode)
    t0 = time.time()
    results = ctx.tlc_parallel(jobs, max_par=4)
    t_tlc = time.time() - t0

    stats = {"cases": {}, "its_entries": {"compared": 0, "not_compared": {}}, "skipped": {}, "traj_inexact_prefix": 0,
             "ens_fractional": 0, "mismatch_counts": report.counts, "gated": list(gated())}
    fired = {m: set() for m in MUST_FIRE}
    seen = set()
    all_cases = []
    ln_checked = None
    for j, mode, r in zip(jobs, meta, results):
        if not r.ok:
            continue        # a model-level violation was already reported by ctx.tlc_parallel
        if mode == "its":
            ln_checked = check_bridge(r.prints, j["label"])
        n_here = 0
        for t, p in r.prints:
            if t == "LN":
                continue
            fired[mode] |= set(p.get("fired", ()))
            if t in ("ITSSKIP", "BOOTSKIP"):
                stats["skipped"][p["why"]] = stats["skipped"].get(p["why"], 0) + 1
                continue
            if t != TAG[mode]:
                raise core.MachineryError("unexpected %s line from %s" % (t, j["label"]))
            k = _case_key(t, p)
            if k in seen:       # the same input reached through another admissible choice (trim ties), or in two scopes
                continue
            seen.add(k)
            p.pop("fired", None)
            all_cases.append((t, p))
            n_here += 1
        if not n_here:
            raise core.MachineryError("no %s lines emitted by %s" % (TAG[mode], j["label"]))
        r.prints = None
        r.stdout = ""
    if all(r.ok for r in results):
        for mode, must in MUST_FIRE.items():
            missing = [a for a in must if a not in fired[mode]]
            if missing:
                raise core.MachineryError("vacuous runs of mode %s: actions %s never fired" % (mode, missing))

    t1 = time.time()
    sampled = set()
    res = core.pmap(replay_case, all_cases, procs=4, chunk=300)
    for (tag, c), bad in zip(all_cases, res):
        take = _nontrivial(tag, c) and tag not in sampled and len(ctx.samples) < 5
        if take:
            sampled.add(tag)
        ctx.case(_case_key(tag, c) if _nontrivial(tag, c) else None, sample=dict(c, tag=tag) if take else None)
        ctx.traces += 1
        stats["cases"][tag] = stats["cases"].get(tag, 0) + 1
        if tag == "ITS":
            for row in c["rows"]:
                for e in row:
                    if e["k"] == "v":
                        stats["its_entries"]["compared"] += 1
                    else:
                        stats["its_entries"]["not_compared"][e["why"]] = stats["its_entries"]["not_compared"].get(e["why"], 0) + 1
        elif tag == "TRAJ" and c["definite"] < c["steps"]:
            stats["traj_inexact_prefix"] += 1
        elif tag == "ENS" and c["frac"]:
            stats["ens_fractional"] += 1
        for k, detail in bad:
            report({"kind": "x_resample", "tag": tag, "case": c, "detail": detail,
                    "how": "enspara.msm %s vs Resample.tla (%s line)" % (
                        {"BOOT": "bootstrap.bootstrap", "ITS": "timescales.implied_timescales",
                         "ENS": "synthetic_data.synthetic_ensemble", "TRAJ": "synthetic_data.synthetic_trajectory"}[tag], tag)}, k)
    # a sample of the rectangular bootstrap cases through the real multiprocessing.Pool (never a ragged one: see GATED)
    real = [c for t, c in all_cases if t == "BOOT" and not c["cls"] and c["trials"] > 0 and
            (c["container"] == "ndarray" or len({len(r) for r in c["rows"]}) == 1)]
    step = max(1, len(real) // (12 if ctx.tier == "quick" else 48))
    real = real[ctx.seed % step::step][:(12 if ctx.tier == "quick" else 48)]
    for c in real:
        for k, detail in replay_boot(c, pool="real", only_first_form=True):
            report({"kind": "x_resample", "tag": "BOOT", "case": c, "detail": detail,
                    "how": "enspara.msm.bootstrap.bootstrap (multiprocessing.Pool, 2 workers) vs Resample.tla (BOOT line)"}, k)
        ctx.traces += 1
    stats["boot_real_pool_cases"] = len(real)
    stats["ln_table_entries_checked"] = ln_checked
    stats["actions_fired"] = {m: sorted(v) for m, v in fired.items()}
    stats["wall_s"] = {"tlc": round(t_tlc, 1), "replay": round(time.time() - t1, 1)}
    ctx.notes["x_resample"] = stats
    return stats


def replay(ctx, rec):
    """re-run one recorded case (rec: the dict of a violation file of this part)"""
    b = core.build_repo()
    core.activate(b)
    bad = replay_case((rec["tag"], rec["case"]))
    ctx.case(("replay",), sample=rec.get("case"))
    ctx.traces += 1
    for k, detail in bad:
        ctx.violation({"kind": "x_resample", "tag": rec["tag"], "case": rec["case"], "detail": detail}, key=k)
