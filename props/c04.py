"""C04 -- every builder returns a valid, stationary, (where promised) reversible
model in the caller's container.

normalize / transpose: specs/msm/Builders.tla computes the exact rational
result (and TLC checks row-stochasticity, stationarity by the Markov-chain
tree theorem, detailed balance, prior-first, caller-unchanged on the
transcription); every enumerated (matrix, builder, prior) is replayed into the
real builders for every container type and both calculate_eq_probs settings.

mle: relational -- outputs of the real builder are recorded as scaled integers
and validated by TLC against specs/msm/MLE.tla (see props/c12.py); the
container clauses are checked here.

large matrices (size-dependent code paths): specs/msm/BuildersLarge.tla runs the
same builder steps on families of structured count matrices of any size
(birth-death, chorded ring, star, directed ring, Kronecker product) whose
results have closed forms in small integers; TLC checks the closed forms for
the very sizes that are replayed -- 999, 1000, 1001, 1500, i.e. both sides of
the `T.shape[0] < 1000` switch from LAPACK to ARPACK in eigenspectrum() -- and
emits them in sparse-row form.
"""
import os

import numpy as np

from harness import core

SPEC_DIR = os.path.join(core.SPECS, "msm")
INVS = ["RowStochastic", "NormalizeIsCountsOverRowsum", "PriorFirst", "SymmetricModel", "PiIsDistribution", "Stationary",
        "PiDivisible", "DetailedBalance", "ContainerRule", "Safe"]
# matrices of pseudocounts (prior_counts as an array): forward-only, row-wise, symmetric but not constant
PRIOR_MATS = {2: [[[0, 1], [0, 0]], [[1, 2], [0, 1]], [[0, 2], [2, 0]]],
              3: [[[0, 1, 0], [0, 0, 1], [0, 0, 0]], [[1, 1, 1], [0, 0, 0], [2, 2, 2]], [[0, 1, 0], [1, 0, 2], [0, 2, 0]]]}
# magnitudes: metastable pairs with 2^28 self-counts and a handful of crossings in unequal numbers (the largest size at
# which every quantity of Builders.tla stays below 2^31)
EXTRA_C = {2: [[[2 ** 28, 3], [1, 2 ** 28]], [[2 ** 28, 1], [3, 2 ** 27]]], 3: []}
STIFF = 2 ** 24          # from here on: no float32 container (the counts are not representable), pi compared at 1e-6


def _tla_fn_matrix(a):
    return "<<" + ", ".join("<<" + ", ".join(str(int(x)) for x in row) + ">>" for row in a) + ">>"


def mc_builders(d, name, n):
    with open(os.path.join(d, name + ".tla"), "w") as fh:
        fh.write("---- MODULE %s ----\nEXTENDS Builders\nMCExtraC == {%s}\nMCPriorMats == {%s}\n====\n"
                 % (name, ", ".join(_tla_fn_matrix(a) for a in EXTRA_C[n]),
                    ", ".join(_tla_fn_matrix(a) for a in PRIOR_MATS[n])))
    return name
FORMATS = ["csr", "csc", "coo", "lil", "dok", "dia", "bsr", "coodup"]

SCOPES = {"quick": [dict(N=2, MaxC=3), dict(N=3, MaxC=1)],
          "thorough": [dict(N=2, MaxC=4), dict(N=3, MaxC=2)]}


DTYPES = ["int64", "float64", "float32", "int32"]


# ---- large structured families (BuildersLarge.tla) ---------------------------------------------------------
LINVS = ["SupportsOK", "SupportsComplete", "Irreducible", "NotUniform", "RowStochastic",
         "NormalizeIsCountsOverRowsum", "PriorFirst", "PiIsDistribution", "PiDivisible", "Stationary",
         "StationaryDense", "DetailedBalance", "RingNotReversible", "SymmetrisedCounts", "ContainerRule", "Safe"]
FAMILIES = ["bd", "chord", "hub", "ring", "prod"]
NPATS = 3
# eigenspectrum(): `if T.shape[0] < 1000 and issparse(T): T = T.toarray()` -- the only size threshold in
# eigenspectrum / eq_probs / builders; sparse input with >= 1000 states goes to ARPACK, everything else to LAPACK
LARGE_SIZES = [999, 1000, 1001, 1500]
SMALL_CHECK = {"quick": list(range(2, 17)), "thorough": list(range(2, 41))}   # exhaustive + full-sum cross-check
SMALL_REPLAY = [5, 12, 40]
PRIOR_SIZE = 1000       # the large size at which prior_counts=1 is replayed
MLE_MAX_N = 12          # builders.mle on the reversible families (its answer is normalize's there); the pure-Python
                        # Prinz iteration needs 3 s per sweep at n = 1000 and has no iteration budget in its
                        # public signature (measured: n = 30: 5 s, n = 60: 63 s, n = 120: 13 min), and it has no
                        # size-dependent branch, so it is not replayed at the large sizes
# ARPACK (scipy.sparse.linalg.eigs, k=3, which="LR") does not converge on the directed-ring family, whatever the
# tolerance: builders.normalize(<sparse ring, n >= 1000>, calculate_eq_probs=True) raises ArpackNoConvergence
# after 100001 restarts (~60 s), while the same counts as ndarray, or with 999 states, give the closed form to
# 1e-12.  The chain mixes in O(n^2) steps and its sub-dominant eigenvalues are complex and within 1e-5 of 1: a
# limit of the iterative solver on a pathological chain rather than a wrong answer, reported to the lead; the
# sub-check (ring x sparse container x n >= 1000 x calculate_eq_probs=True) stays off so that the check does not
# spend minutes to end in a known exception.  Non-reversible chains reach ARPACK through the "prod" family.
RING_ARPACK = False
SLOW_MIXING = ("bd", "ring")     # spectral gap ~ 1/n^2: the leading eigenvector is known to ~1e-9 only (measured
                                 # 1e-10 .. 1e-8 depending on ARPACK's start vector) -> compared at 1e-6, not 1e-7


def make(container, C, dtype="int64"):
    import scipy.sparse as sp
    if container == "ndarray":
        return np.array(C, dtype=dtype)
    if container == "coodup":
        # the form assigns_to_counts returns: a COO matrix holding one entry of value 1 per observed transition,
        # i.e. repeated coordinates that only sum to the count
        A = np.array(C, dtype=np.int64)
        i, j = np.nonzero(A)
        reps = A[i, j]
        return sp.coo_matrix((np.ones(int(reps.sum()), dtype=dtype), (np.repeat(i, reps), np.repeat(j, reps))), shape=A.shape)
    return getattr(sp, container + "_matrix")(np.array(C, dtype=dtype))


def dense(x):
    import scipy.sparse as sp
    if sp.issparse(x):
        return np.asarray(x.toarray())
    return np.asarray(x)


def replay_case(arg):
    c, containers = arg
    import warnings
    from enspara.msm import builders
    n = len(c["C"])
    bad = []
    W = np.array(c["W"], dtype=float)
    if c["half"]:
        W = W / 2
    T = np.array([[t[0] / t[1] for t in row] for row in c["T"]])
    pi = np.array([p[0] / p[1] for p in c["pi"]]) if c["pi"][0][1] > 0 else None
    check_pi = pi is not None and (c["builder"] == "transpose" or c["sc"])
    prior = None if c["prior"] == 0 else c["prior"]
    stiff = int(np.max(c["C"])) >= STIFF
    fn = getattr(builders, c["builder"])
    # element type of the caller's matrix: every type for the two containers whose conversions can hand back the
    # caller's own object (ndarray, csr), the default plus one rotating type elsewhere
    combos = []
    for ci, cont in enumerate(containers):
        dts = DTYPES if cont in ("ndarray", "csr") else ["int64", DTYPES[1 + (ci + len(c["C"]) + c["prior"]) % 3]]
        for di, dt in enumerate(dts):
            if stiff and (dt == "float32" or cont == "coodup"):      # (one stored entry per count: 2^28 of them)
                continue
            for flag in ((True, False) if dt == "int64" else ((di + ci) % 2 == 0,)):
                combos.append((cont, dt, flag))
    # fractional prior: every builder is invariant under a common scaling of counts and prior (T and pi depend on
    # ratios only), so the emitted result for (C, prior 1) with all-even C is the result for (C/2, prior 1/2) with
    # the returned counts halved -- replayed in integer and float containers
    Ceven = np.array(c["C"])
    if c["prior"] == 1 and not (Ceven % 2).any():
        for ci, cont in enumerate(containers):
            combos.append((cont, ("int64", "float64", "int32")[(ci + len(c["C"])) % 3] + "/half", ci % 2 == 0))
    for cont, dt, flag in combos:
        if True:
            halfprior = dt.endswith("/half")
            if halfprior:
                dt = dt[:-5]
            M = make(cont, (Ceven // 2).tolist() if halfprior else c["C"], dt)
            Wexp, pr = (W / 2, 0.5) if halfprior else (W, prior)
            if c["prior"] == 2:          # a matrix of pseudocounts, in an integer or a floating-point array
                pr = np.array(c["P"], dtype=("int64", "float64")[(len(combos) + len(bad) + len(cont)) % 2])
                pr0 = pr.copy()
            before = dense(M).copy()
            btype = type(M)
            rtol = 1e-12 if dt != "float32" else 3e-6
            try:
                with warnings.catch_warnings():
                    warnings.simplefilter("ignore")
                    Cout, Tout, eq = fn(M, prior_counts=pr, calculate_eq_probs=flag)
            except Exception as ex:
                bad.append(("%s/%s/raises-%s" % (c["builder"], "sparse" if cont != "ndarray" else "dense",
                                                type(ex).__name__),
                            {"container": cont, "flag": flag, "error": "%s: %s" % (type(ex).__name__, ex)}))
                continue
            where = {"container": cont, "dtype": dt, "calculate_eq_probs": flag}
            if c["prior"] == 2:
                where["prior_counts"] = "%s array %s" % (pr.dtype, c["P"])
                if not np.array_equal(pr, pr0):
                    bad.append((c["builder"] + "/caller-modified", dict(where, prior_now=pr.tolist())))
            if halfprior:
                where["prior_counts"] = 0.5
                where["C"] = (Ceven // 2).tolist()
            # caller's matrix
            if type(M) is not btype or M.dtype != np.dtype(dt) or not np.array_equal(dense(M), before):
                bad.append((c["builder"] + "/caller-modified", dict(where, now=dense(M).tolist())))
            # containers
            allowed = {btype} if pr is None or cont == "ndarray" else {np.ndarray} if c["prior"] == 2 else {btype, np.ndarray}
            if type(Tout) not in allowed or type(Cout) not in allowed:
                bad.append((c["builder"] + "/container", dict(where, got=[type(Cout).__name__, type(Tout).__name__],
                                                              allowed=[t.__name__ for t in allowed])))
            # values
            if dense(Cout).shape != (n, n) or not np.allclose(dense(Cout), Wexp, rtol=rtol, atol=0):
                bad.append((c["builder"] + "/counts", dict(where, got=dense(Cout).tolist(), expected=Wexp.tolist())))
            if dense(Tout).shape != (n, n) or not np.allclose(dense(Tout), T, rtol=rtol, atol=1e-15):
                bad.append((c["builder"] + "/tprobs", dict(where, got=dense(Tout).tolist(), expected=T.tolist())))
            if not flag:
                if eq is not None:
                    bad.append((c["builder"] + "/eq-not-suppressed", dict(where, got=str(eq))))
            else:
                e = np.asarray(eq)
                if e.shape != (n,):
                    bad.append((c["builder"] + "/eq-shape", dict(where, got=str(e.shape))))
                elif check_pi and not np.allclose(e, pi, rtol=1e-6 if stiff else max(1e-9, rtol * 10), atol=1e-12):
                    bad.append((c["builder"] + "/eq-probs", dict(where, got=e.tolist(), expected=pi.tolist())))
    return bad


# ---------------------------------------------------------------------------------------------------------
# large structured families: projection of the emitted sparse rows, replay

_LARGE = []        # emitted cases; filled before the worker pool forks, workers index into it


def _rows(rows):
    """sparse rows as emitted by ToJson: per row an object {column: value} (or a list when the support is 1..k)
    -> 0-based row index, column index, list of values"""
    ii, jj, vv = [], [], []
    for i, row in enumerate(rows):
        items = row.items() if isinstance(row, dict) else enumerate(row, 1)
        for j, v in items:
            ii.append(i)
            jj.append(int(j) - 1)
            vv.append(v)
    return np.array(ii), np.array(jj), vv


def _expect(c):
    """emitted case -> dense numpy expectations (projection only: fill, num / den)"""
    n = c["n"]
    i, j, v = _rows(c["C"])
    C = np.zeros((n, n), dtype=np.int64)
    C[i, j] = v
    i, j, v = _rows(c["W"])
    W = np.full((n, n), float(c["bg"]))
    W[i, j] += np.array(v, dtype=float)
    if c["half"]:
        W = W / 2
    T = np.repeat(np.array([b[0] / b[1] for b in c["Tbg"]])[:, None], n, axis=1)
    i, j, v = _rows(c["T"])
    T[i, j] = [t[0] / t[1] for t in v]
    pi = np.array([q[0] / q[1] for q in c["pi"]]) if c["pi"][0][1] > 0 else None
    return C, W, T, pi


def internals(M):
    """copies of the arrays a sparse matrix is made of (the caller's matrix has to keep them, not only its value)"""
    import scipy.sparse as sp
    if not sp.issparse(M):
        return []
    if M.format == "dok":
        return [("items", sorted((tuple(int(x) for x in k), float(v)) for k, v in M.items()))]
    out = []
    for a in ("data", "indices", "indptr", "row", "col", "offsets", "rows"):
        x = getattr(M, a, None)
        if isinstance(x, np.ndarray):
            out.append((a, [list(r) for r in x] if x.dtype == object else x.copy()))
    return out


def same_internals(a, b):
    if len(a) != len(b):
        return False
    for (na, xa), (nb, xb) in zip(a, b):
        if na != nb:
            return False
        if isinstance(xa, list):
            if xa != xb:
                return False
        elif xa.dtype != xb.dtype or xa.shape != xb.shape or not np.array_equal(xa, xb):
            return False
    return True


def large_combos(k, c):
    """(container, element type, calculate_eq_probs, builder) calls replayed for emitted case number k"""
    n, fam, builder, prior = c["n"], c["fam"], c["builder"], c["prior"]
    fast = fam not in SLOW_MIXING
    out = []
    for ci, cont in enumerate(["ndarray"] + FORMATS):
        if prior and n > 40 and cont == "dok":
            continue          # dok_matrix + scalar is supported by scipy and yields a dict of n^2 entries: 15 .. 30 s per call
        dts = ["int64"]
        if cont in ("ndarray", "csr") or (ci + k) % 3 == 0 or n <= 40:
            dts.append(DTYPES[1 + (ci + k) % 3])
        for dt in dts:
            if builder == "transpose":
                flags = [True, False] if dt == "int64" else [True]
            elif prior:                      # no closed form for the stationary vector of C + prior
                flags = [False]
            else:
                flags = [False]
                if dt == "float32" and not fast:
                    eig = False              # single-precision row weights x slow mixing: pi only to ~1e-4
                elif n <= 40:
                    eig = True
                elif cont == "ndarray":      # LAPACK, 1 .. 4 s each at these sizes
                    eig = dt == "int64"
                elif n < 1000:               # sparse, densified by eigenspectrum: LAPACK again
                    eig = (ci + k) % 3 == 0 and dt == "int64"
                elif fam == "ring":
                    eig = RING_ARPACK
                elif fam == "bd":            # ARPACK needs 0.5 .. 2 s on the slowly mixing chain
                    eig = (ci + k) % 3 == 0 and dt == "int64"
                else:
                    eig = True
                if eig:
                    flags.append(True)
            for flag in flags:
                out.append((k, cont, dt, flag, builder))
    if c["mle_same"] and n <= MLE_MAX_N:
        for ci, cont in enumerate(["ndarray"] + FORMATS):
            out.append((k, cont, ("int64", "float64", "int32")[(ci + k) % 3], ci % 2 == 0, "mle"))
    return out


def replay_large(arg):
    k, cont, dt, flag, bname = arg
    import warnings
    from enspara.msm import builders
    c = _LARGE[k]
    n, fam = c["n"], c["fam"]
    C, W, T, pi = _expect(c)
    prior = None if c["prior"] == 0 else c["prior"]
    where = {"n": n, "family": fam, "pattern": c["pat"], "builder": bname, "prior_counts": prior, "container": cont,
             "dtype": dt, "calculate_eq_probs": flag}
    size = "n>=1000" if n >= 1000 else "n<1000"
    kind = "dense" if cont == "ndarray" else "sparse"
    pre = "large/%s/" % bname
    bad = []
    with warnings.catch_warnings():
        warnings.simplefilter("ignore")          # "DIA matrix with 1997 diagonals is inefficient"
        M = make(cont, C, dt)
    before, ibefore, btype = dense(M).copy(), internals(M), type(M)
    if bname == "mle":
        t_rtol, t_atol, p_rtol = 1e-5, 1e-8, 1e-5            # the iteration stops on a log-likelihood change of 1e-10
    else:
        t_rtol, t_atol = (1e-9 if dt != "float32" else 3e-6), 1e-15
        p_rtol = (1e-6 if fam in SLOW_MIXING else 1e-7) if dt != "float32" else 3e-5
    try:
        with warnings.catch_warnings():
            warnings.simplefilter("ignore")
            Cout, Tout, eq = getattr(builders, bname)(M, prior_counts=prior, calculate_eq_probs=flag)
    except Exception as ex:
        return [(pre + "%s/%s/raises-%s" % (kind, size, type(ex).__name__),
                 dict(where, error="%s: %s" % (type(ex).__name__, str(ex)[:300])))]

    def worst(got, exp):
        d = np.abs(got - exp)
        a = np.unravel_index(int(np.argmax(d)), d.shape)
        return {"at": [int(x) for x in a], "got": float(got[a]), "expected": float(exp[a]),
                "mismatches": int((d > 1e-6 * np.abs(exp) + 1e-12).sum())}
    if type(M) is not btype or M.dtype != np.dtype(dt) or not np.array_equal(dense(M), before) \
            or not same_internals(internals(M), ibefore):
        bad.append((pre + "caller-modified", dict(where, value_changed=not np.array_equal(dense(M), before),
                                                   internals_changed=not same_internals(internals(M), ibefore))))
    allowed = {btype} if prior is None or cont == "ndarray" else {btype, np.ndarray}
    if type(Tout) not in allowed or type(Cout) not in allowed:
        bad.append((pre + "container", dict(where, got=[type(Cout).__name__, type(Tout).__name__],
                                             allowed=[t.__name__ for t in allowed])))
    Wexp = W if bname != "mle" else C.astype(float)
    if dense(Cout).shape != (n, n) or not np.allclose(dense(Cout), Wexp, rtol=1e-12, atol=0):
        bad.append((pre + "counts", dict(where, **(worst(dense(Cout), Wexp) if dense(Cout).shape == (n, n) else {}))))
    if dense(Tout).shape != (n, n) or not np.allclose(dense(Tout), T, rtol=t_rtol, atol=t_atol):
        bad.append((pre + "tprobs/" + size, dict(where, **(worst(dense(Tout), T) if dense(Tout).shape == (n, n) else {}))))
    if not flag:
        if eq is not None:
            bad.append((pre + "eq-not-suppressed", dict(where, got=str(eq)[:200])))
    else:
        e = np.asarray(eq)
        if e.shape != (n,):
            bad.append((pre + "eq-shape", dict(where, got=str(e.shape))))
        elif pi is not None and not np.allclose(e, pi, rtol=p_rtol, atol=1e-13):
            bad.append((pre + "eq-probs/%s/%s" % (kind, size),
                        dict(where, uniform=bool(np.allclose(e, 1.0 / n, rtol=1e-6)), **worst(e.astype(float), pi))))
    return bad


def large_job(d, name, sizes, pats, tags, mode, priors=(0, 1), **kw):
    """one TLC job on BuildersLarge.tla; mode: "check" (invariants), "emit" (CASE lines), "check+emit" """
    lit = lambda xs: "{" + ", ".join(str(x) for x in xs) + "}"
    fams = "{" + ", ".join('"%s"' % f for f in FAMILIES) + "}"
    consts = dict(Sizes=lit(sizes), Families=fams, PatIds=lit(pats), Priors=lit(priors), Tags=tags, DenseMax="40",
                  Emit="FALSE" if mode == "check" else "TRUE")
    cfg = core.write_cfg(os.path.join(d, name + ".cfg"), constants=consts,
                         invariants=(LINVS if mode != "emit" else []) + (["EmitInv"] if mode != "check" else []),
                         properties=["CallerUnchanged"] if mode != "emit" else [])
    return dict(module="BuildersLarge", cfg=os.path.basename(cfg), cwd=d,
                label="large families %s n=%s patterns %s" % (mode, lit(sizes) if len(sizes) < 6 else
                                                            "%d..%d" % (sizes[0], sizes[-1]), lit(pats)),
                timeout=1500, **kw)


def large_jobs(ctx, d):
    """TLC jobs on BuildersLarge.tla: (i) the large sizes, one job per size (closed forms checked and emitted);
    (ii) every size 2..16 (40), every family / pattern / prior / container tag, with the full-sum cross-checks;
    (iii) the emitter of the small replayed sizes"""
    allp = list(range(1, NPATS + 1))
    jobs, emit = [], []

    def job(name, sizes, pats, tags, mode, **kw):
        jobs.append(large_job(d, name, sizes, pats, tags, mode, **kw))
        if mode != "check":
            emit.append(len(jobs) - 1)
    for q, n in enumerate(LARGE_SIZES):
        # quick: one pattern per size (rotating with the seed), thorough: all of them.  The container tag and the
        # prior are explored at every small size; here: one tag, and the prior (which densifies every container,
        # so that no size-dependent path is left) at n = 1000 only.  One worker: the run that checks the closed
        # forms is the run that emits them.
        pats = [1 + (q + ctx.seed) % NPATS] if ctx.tier == "quick" else allp
        job("l%d" % n, [n], pats, '{"dense"}', "check+emit", priors=(0, 1) if n == PRIOR_SIZE else (0,), workers=1)
    job("ls", SMALL_CHECK[ctx.tier], allp, '{"dense", "sparse"}', "check", coverage=True, workers=4)
    job("les", SMALL_REPLAY, [1 + ctx.seed % NPATS, 1 + (ctx.seed + 1) % NPATS] if ctx.tier == "quick" else allp,
        '{"sparse"}', "emit", workers=1)
    return jobs, emit


def large_replay(ctx, results):
    """replay of the emitted closed forms into the real builders"""
    global _LARGE
    seen, cases = set(), []
    for r in results:
        for t, p in r.prints:
            if t != "CASE":
                continue
            key = (p["n"], p["fam"], p["pat"], p["builder"], p["prior"])
            # the scalar prior densifies every container (no size-dependent path left): one large size is enough
            if key in seen or (p["prior"] and p["n"] > 40 and p["n"] != PRIOR_SIZE):
                continue
            seen.add(key)
            cases.append(p)
    if len({c["n"] for c in cases}) < len(LARGE_SIZES) + len(SMALL_REPLAY):
        raise core.MachineryError("large families: cases for sizes %s only" % sorted({c["n"] for c in cases}))
    _LARGE = cases
    tasks = [t for k, c in enumerate(cases) for t in large_combos(k, c)]
    # the costly calls (dense eigen-decompositions at n ~ 1000 .. 1500) first, so that the pool stays busy
    tasks.sort(key=lambda t: -(cases[t[0]]["n"] * (3 if t[3] and t[4] == "normalize" else 1)))
    import time
    t0 = time.time()
    out = core.pmap(replay_large, tasks, chunk=1)
    wall = round(time.time() - t0, 1)
    per = {}
    for t, bad in zip(tasks, out):
        per.setdefault(t[0], []).extend(bad)
    arpack = sum(1 for t in tasks if t[3] and t[4] == "normalize" and t[1] != "ndarray" and cases[t[0]]["n"] >= 1000
                 and not cases[t[0]]["prior"])
    for k, c in enumerate(cases):
        ident = {x: c[x] for x in ("n", "fam", "pat", "builder", "prior")}
        ctx.case(("large",) + tuple(ident.values()), sample=None)
        ctx.traces += 1
        for key, detail in per.get(k, []):
            ctx.violation({"kind": "replay-large", "case": ident, "detail": detail,
                           "regenerate": "BuildersLarge.tla with Sizes={%d} Families={\"%s\"} PatIds={%d}, EmitInv"
                                         % (c["n"], c["fam"], c["pat"]),
                           "how": "builders.%s vs BuildersLarge.tla" % detail.get("builder", c["builder"])}, key=key)
    ctx.notes["large_families"] = {"sizes": sorted({c["n"] for c in cases}), "cases": len(cases), "calls": len(tasks),
                                   "calls_reaching_arpack": arpack, "ring_arpack_subcheck": RING_ARPACK,
                                   "replay_wall_s": wall}


def run(ctx):
    ctx.rule = ("TLC enumerates every count matrix with entries 0..MaxC and all row sums > 0 x builder x prior; "
                "non-trivial = strongly connected and not symmetric; distinct by (C, builder, prior); each case "
                "is replayed for ndarray + 7 sparse-matrix formats + a COO matrix with repeated coordinates x element types x calculate_eq_probs; "
                "plus 5 structured families with closed forms (BuildersLarge.tla) at n = 999, 1000, 1001, 1500 and 5, 12, 40")
    ctx.assumptions += ["sparse *matrix* containers (csr..bsr) as listed by the property; sparse *arrays* are outside its quantifier",
                        "stationarity compared only for strongly connected chains (unique stationary vector)"]
    b = core.build_repo()
    core.activate(b)
    d = core.spec_tmp(SPEC_DIR)
    jobs = []
    for i, sc in enumerate(SCOPES[ctx.tier]):
        k = {a: str(v) for a, v in sc.items()}
        k.update(ExtraC="<- MCExtraC", PriorMats="<- MCPriorMats")
        mod = mc_builders(d, "MC_Builders%d" % i, sc["N"])
        cfg = core.write_cfg(os.path.join(d, "b%d.cfg" % i), constants=dict(k, Emit="FALSE"),
                             invariants=INVS, properties=["CallerUnchanged"])
        jobs.append(dict(module=mod, cfg=os.path.basename(cfg), cwd=d, label="exhaustive %s" % sc,
                         coverage=True, workers=6))
        cfg = core.write_cfg(os.path.join(d, "e%d.cfg" % i), constants=dict(k, Emit="TRUE"), invariants=["EmitInv"])
        jobs.append(dict(module=mod, cfg=os.path.basename(cfg), cwd=d, label="emit %s" % sc, workers=1))
    ljobs, lemit = large_jobs(ctx, d)
    lres = ctx.tlc_parallel(ljobs + jobs)         # the long-running jobs first
    res = lres[len(ljobs):]
    seen = set()
    for i, sc in enumerate(SCOPES[ctx.tier]):
        cases = []
        for t, p in res[2 * i + 1].prints:
            if t != "CASE":
                continue
            key = (str(p["C"]), p["builder"], p["prior"], str(p["P"]) if p["prior"] == 2 else "")
            if key in seen:        # the tag dimension of the model duplicates values
                continue
            seen.add(key)
            cases.append(p)
        if not cases:
            raise core.MachineryError("no CASE lines for %s" % sc)
        args = []
        for k, c in enumerate(cases):
            # all containers for every 4th case, dense + csr + one rotating format otherwise
            if ctx.tier == "thorough" or k % 4 == 0:
                conts = ["ndarray"] + FORMATS
            else:
                conts = ["ndarray", "csr", FORMATS[1 + k % 7]]
            args.append((c, conts))
        out = core.pmap(replay_case, args, chunk=50)
        for (c, conts), bad in zip(args, out):
            C = np.array(c["C"])
            nontriv = c["sc"] and not np.array_equal(C, C.T)
            ctx.case((str(c["C"]), c["builder"], c["prior"], str(c["P"]) if c["prior"] == 2 else "") if nontriv else None,
                     sample=c if nontriv else None)
            ctx.traces += 1
            for key, detail in bad:
                ctx.violation({"kind": "replay", "case": c, "detail": detail,
                               "how": "builders.%s vs Builders.tla" % c["builder"]}, key=key)
    large_replay(ctx, [lres[i] for i in lemit])
    from props import c12
    c12.mle_container_part(ctx)
