"""C04 -- every builder returns a valid, stationary, (where promised) reversible
model in the caller's container.

normalize / transpose: specs/msm/Builders.tla computes the exact rational
result (and TLC checks row-stochasticity, stationarity by the Markov-chain
tree theorem, detailed balance, prior-first, caller-unchanged on the
transcription); every enumerated (matrix, builder, prior) is replayed into the
real builders for every container type and both calculate_eq_probs settings.

mle: relational -- outputs of the real builder are recorded as scaled integers
and validated by TLC against specs/msm/MLE.tla (see props/c12.py); the
container clauses are checked here.
"""
import os

import numpy as np

from harness import core

SPEC_DIR = os.path.join(core.SPECS, "msm")
INVS = ["RowStochastic", "NormalizeIsCountsOverRowsum", "PriorFirst", "PiIsDistribution", "Stationary",
        "PiDivisible", "DetailedBalance", "ContainerRule", "Safe"]
FORMATS = ["csr", "csc", "coo", "lil", "dok", "dia", "bsr", "coodup"]

SCOPES = {"quick": [dict(N=2, MaxC=3), dict(N=3, MaxC=1)],
          "thorough": [dict(N=2, MaxC=4), dict(N=3, MaxC=2)]}


DTYPES = ["int64", "float64", "float32", "int32"]


def make(container, C, dtype="int64"):
    import scipy.sparse as sp
    if container == "ndarray":
        return np.array(C, dtype=dtype)
    if container == "coodup":
        # the form assigns_to_counts returns: a COO matrix holding one entry of value 1 per observed transition,
        # i.e. repeated coordinates that only sum to the count
        A = np.array(C, dtype=np.int64)
        i, j = np.nonzero(A)
        reps = A[i, j]
        return sp.coo_matrix((np.ones(int(reps.sum()), dtype=dtype), (np.repeat(i, reps), np.repeat(j, reps))), shape=A.shape)
    return getattr(sp, container + "_matrix")(np.array(C, dtype=dtype))


def dense(x):
    import scipy.sparse as sp
    if sp.issparse(x):
        return np.asarray(x.toarray())
    return np.asarray(x)


def replay_case(arg):
    c, containers = arg
    import warnings
    from enspara.msm import builders
    n = len(c["C"])
    bad = []
    W = np.array(c["W"], dtype=float)
    if c["half"]:
        W = W / 2
    T = np.array([[t[0] / t[1] for t in row] for row in c["T"]])
    pi = np.array([p[0] / p[1] for p in c["pi"]]) if c["pi"][0][1] > 0 else None
    check_pi = pi is not None and (c["builder"] == "transpose" or c["sc"])
    prior = None if c["prior"] == 0 else c["prior"]
    fn = getattr(builders, c["builder"])
    # element type of the caller's matrix: every type for the two containers whose conversions can hand back the
    # caller's own object (ndarray, csr), the default plus one rotating type elsewhere
    combos = []
    for ci, cont in enumerate(containers):
        dts = DTYPES if cont in ("ndarray", "csr") else ["int64", DTYPES[1 + (ci + len(c["C"]) + c["prior"]) % 3]]
        for di, dt in enumerate(dts):
            for flag in ((True, False) if dt == "int64" else ((di + ci) % 2 == 0,)):
                combos.append((cont, dt, flag))
    # fractional prior: every builder is invariant under a common scaling of counts and prior (T and pi depend on
    # ratios only), so the emitted result for (C, prior 1) with all-even C is the result for (C/2, prior 1/2) with
    # the returned counts halved -- replayed in integer and float containers
    Ceven = np.array(c["C"])
    if c["prior"] == 1 and not (Ceven % 2).any():
        for ci, cont in enumerate(containers):
            combos.append((cont, ("int64", "float64", "int32")[(ci + len(c["C"])) % 3] + "/half", ci % 2 == 0))
    for cont, dt, flag in combos:
        if True:
            halfprior = dt.endswith("/half")
            if halfprior:
                dt = dt[:-5]
            M = make(cont, (Ceven // 2).tolist() if halfprior else c["C"], dt)
            Wexp, pr = (W / 2, 0.5) if halfprior else (W, prior)
            before = dense(M).copy()
            btype = type(M)
            rtol = 1e-12 if dt != "float32" else 3e-6
            try:
                with warnings.catch_warnings():
                    warnings.simplefilter("ignore")
                    Cout, Tout, eq = fn(M, prior_counts=pr, calculate_eq_probs=flag)
            except Exception as ex:
                bad.append(("%s/%s/raises-%s" % (c["builder"], "sparse" if cont != "ndarray" else "dense",
                                                type(ex).__name__),
                            {"container": cont, "flag": flag, "error": "%s: %s" % (type(ex).__name__, ex)}))
                continue
            where = {"container": cont, "dtype": dt, "calculate_eq_probs": flag}
            if halfprior:
                where["prior_counts"] = 0.5
                where["C"] = (Ceven // 2).tolist()
            # caller's matrix
            if type(M) is not btype or M.dtype != np.dtype(dt) or not np.array_equal(dense(M), before):
                bad.append((c["builder"] + "/caller-modified", dict(where, now=dense(M).tolist())))
            # containers
            allowed = {btype} if pr is None or cont == "ndarray" else {btype, np.ndarray}
            if type(Tout) not in allowed or type(Cout) not in allowed:
                bad.append((c["builder"] + "/container", dict(where, got=[type(Cout).__name__, type(Tout).__name__],
                                                              allowed=[t.__name__ for t in allowed])))
            # values
            if dense(Cout).shape != (n, n) or not np.allclose(dense(Cout), Wexp, rtol=rtol, atol=0):
                bad.append((c["builder"] + "/counts", dict(where, got=dense(Cout).tolist(), expected=Wexp.tolist())))
            if dense(Tout).shape != (n, n) or not np.allclose(dense(Tout), T, rtol=rtol, atol=1e-15):
                bad.append((c["builder"] + "/tprobs", dict(where, got=dense(Tout).tolist(), expected=T.tolist())))
            if not flag:
                if eq is not None:
                    bad.append((c["builder"] + "/eq-not-suppressed", dict(where, got=str(eq))))
            else:
                e = np.asarray(eq)
                if e.shape != (n,):
                    bad.append((c["builder"] + "/eq-shape", dict(where, got=str(e.shape))))
                elif check_pi and not np.allclose(e, pi, rtol=max(1e-9, rtol * 10), atol=1e-12):
                    bad.append((c["builder"] + "/eq-probs", dict(where, got=e.tolist(), expected=pi.tolist())))
    return bad


def run(ctx):
    ctx.rule = ("TLC enumerates every count matrix with entries 0..MaxC and all row sums > 0 x builder x prior; "
                "non-trivial = strongly connected and not symmetric; distinct by (C, builder, prior); each case "
                "is replayed for ndarray + 7 sparse-matrix formats + a COO matrix with repeated coordinates x element types x calculate_eq_probs")
    ctx.assumptions += ["sparse *matrix* containers (csr..bsr) as listed by the property; sparse *arrays* are outside its quantifier",
                        "stationarity compared only for strongly connected chains (unique stationary vector)"]
    b = core.build_repo()
    core.activate(b)
    d = core.spec_tmp(SPEC_DIR)
    jobs = []
    for i, sc in enumerate(SCOPES[ctx.tier]):
        k = {a: str(v) for a, v in sc.items()}
        cfg = core.write_cfg(os.path.join(d, "b%d.cfg" % i), constants=dict(k, Emit="FALSE"),
                             invariants=INVS, properties=["CallerUnchanged"])
        jobs.append(dict(module="Builders", cfg=os.path.basename(cfg), cwd=d, label="exhaustive %s" % sc,
                         coverage=True, workers=6))
        cfg = core.write_cfg(os.path.join(d, "e%d.cfg" % i), constants=dict(k, Emit="TRUE"), invariants=["EmitInv"])
        jobs.append(dict(module="Builders", cfg=os.path.basename(cfg), cwd=d, label="emit %s" % sc, workers=1))
    res = ctx.tlc_parallel(jobs)
    seen = set()
    for i, sc in enumerate(SCOPES[ctx.tier]):
        cases = []
        for t, p in res[2 * i + 1].prints:
            if t != "CASE":
                continue
            key = (str(p["C"]), p["builder"], p["prior"])
            if key in seen:        # the tag dimension of the model duplicates values
                continue
            seen.add(key)
            cases.append(p)
        if not cases:
            raise core.MachineryError("no CASE lines for %s" % sc)
        args = []
        for k, c in enumerate(cases):
            # all containers for every 4th case, dense + csr + one rotating format otherwise
            if ctx.tier == "thorough" or k % 4 == 0:
                conts = ["ndarray"] + FORMATS
            else:
                conts = ["ndarray", "csr", FORMATS[1 + k % 7]]
            args.append((c, conts))
        out = core.pmap(replay_case, args, chunk=50)
        for (c, conts), bad in zip(args, out):
            C = np.array(c["C"])
            nontriv = c["sc"] and not np.array_equal(C, C.T)
            ctx.case((str(c["C"]), c["builder"], c["prior"]) if nontriv else None,
                     sample=c if nontriv else None)
            ctx.traces += 1
            for key, detail in bad:
                ctx.violation({"kind": "replay", "case": c, "detail": detail,
                               "how": "builders.%s vs Builders.tla" % c["builder"]}, key=key)
    from props import c12
    c12.mle_container_part(ctx)
