"""C19 -- results depend on arguments only (not on history, threads, heap contents).

Static half: harness/extract/masked_sites.py extracts from the CURRENT source every
masked element-wise call (ufunc with where=) and every uninitialised allocation; the table
becomes the constant `Sites` of specs/purity/Purity.tla and TLC decides, by self-composition
over all masks and all heap histories, at which sites a result can read junk.
Dynamic half (spec -> code): TLC enumerates call histories (poison pattern, up to two prior
calls from a 'dirtying' alphabet, thread count) x routine x argument set; each is replayed in
a worker process whose numpy allocator fills fresh blocks with the pattern; the result must be
bit-identical to the same call in a clean single-threaded process, and the arguments must be
bit-identical before and after.
"""
import json
import os
import subprocess

from harness import core
from harness.extract import masked_sites

SPEC_DIR = os.path.join(core.SPECS, "purity")


def run_worker(build, poison, jobs, threads):
    d = core.scratch("ev_c19_")
    resf = os.path.join(d, "res.json")
    env = dict(os.environ, OMP_NUM_THREADS=str(threads), PYTHONPATH="")
    p = subprocess.run([core.PY, os.path.join(core.VERIF, "harness", "purity_worker.py"), build,
                        "1" if poison else "0", resf], input=json.dumps(jobs), stdout=subprocess.PIPE,
                       stderr=subprocess.PIPE, text=True, env=env, timeout=3000)
    if p.returncode != 0 or not os.path.exists(resf):
        raise core.MachineryError("purity worker failed: %s" % p.stderr[-2000:])
    return json.load(open(resf))


def run(ctx):
    ctx.rule = ("static: every masked-ufunc / uninitialised-allocation site of the source x every mask x every heap history "
                "of depth <= MaxHist (TLC); dynamic: TLC-enumerated histories (pattern, <=2 prior calls, threads) x routine "
                "x argument set replayed under the poisoning allocator; non-trivial = poisoned history (pattern != 0 or prior "
                "calls) of a routine whose arguments contain masked-out cells or that allocates work arrays")
    ctx.assumptions += ["the heap is observed through numpy's data allocator (PyDataMem_SetHandler); memory obtained by C "
                        "extensions through malloc directly is not poisoned",
                        "OpenMP thread counts 1/2/4/16 via OMP_NUM_THREADS; the actual interleavings are the runtime's",
                        "routine alphabet = the numerical API listed in harness/purity_routines.py, 3 argument sets each"]
    b = core.build_repo()
    # ---- static half
    sites = masked_sites.extract(b)
    ctx.notes["sites"] = sites
    d = core.spec_tmp(SPEC_DIR)
    table = "<<" + ", ".join('[site |-> "%s|%s|%s", kind |-> "%s"]' % (s["site"].split(":")[0], s["func"], s["call"], s["kind"])
                             for s in sites) + ">>"
    with open(os.path.join(d, "MC_Purity.tla"), "w") as fh:      # the extracted routine table as a definition
        fh.write("---- MODULE MC_Purity ----\nEXTENDS Purity\nSitesTable == %s\n====\n" % table)
    table = "<- SitesTable"
    core.write_cfg(os.path.join(d, "static.cfg"), constants=dict(Sites=table, NCells="3", MaxHist="3"),
                   invariants=["Report", "Modelled", "SameResultOrReported"])
    r = ctx.tlc("MC_Purity", "static.cfg", d, label="static: sites x masks x histories", workers=4, coverage=True)
    junk = {}
    modelled = set()
    for t, p in r.prints:
        if t == "JUNKREAD":
            junk[p[0]] = p[1]
        elif t == "SITE":
            modelled.add(p[0])
    for s in sites:
        sid = "%s|%s|%s" % (s["site"].split(":")[0], s["func"], s["call"])
        ctx.case(("site", sid), sample={"site": s["site"], "kind": s["kind"], "junk_read_possible": sid in junk})
        if sid in junk and s["kind"] != "empty_unknown":
            ctx.violation({"kind": "model", "site": s, "how": "Purity.tla: a history and a mask exist for which the result reads a "
                           "cell the routine never initialised (masked ufunc without out= buffer)"},
                          key="purity/junk-read/%s/%s/%s" % (s["site"].split(":")[0], s["func"], s["call"]))
    ctx.notes["unmodelled_empty_sites"] = [s["site"] for s in sites if s["kind"] == "empty_unknown"]
    if len(modelled) != len({"%s|%s|%s" % (s["site"].split(":")[0], s["func"], s["call"]) for s in sites}):
        raise core.MachineryError("TLC did not reach every extracted site")
    # ---- dynamic half
    import sys
    sys.path.insert(0, b)
    sys.path.insert(0, os.path.join(core.VERIF, "harness", "fakempi"))
    from harness import purity_routines as PR
    names = PR.ROUTINES.names()
    nargs = PR.NSETS if ctx.tier == "thorough" else 2
    core.write_cfg(os.path.join(d, "hist.cfg"), init="HInit", next_="HNext", invariants=["EmitHist"],
                   constants=dict(NRoutines=str(len(names)), NDirty=str(len(PR.DIRTY)), NArgsets=str(nargs)))
    r = ctx.tlc("PurityHist", "hist.cfg", d, label="history enumeration", workers=1, timeout=3000)
    hists = [p for t, p in r.prints if t == "CASE"]
    if not hists:
        raise core.MachineryError("no histories emitted")
    ctx.notes["histories_enumerated"] = len(hists)
    target = 2500 if ctx.tier == "quick" else 40000
    if len(hists) > target:
        # deterministic, seed-rotated subsample that keeps, for every routine x argset, the NaN-pattern history
        # without prior calls at 1 and 16 threads
        stride = -(-len(hists) // target)
        keep = []
        for i, hh in enumerate(hists):
            if (i + ctx.seed) % stride == 0 or (len(hh["prior"]) == 0 and hh["byte"] == 255 and hh["threads"] in (1, 16)):
                keep.append(hh)
        hists = keep
        ctx.exhaustive = False
    # baseline: clean process, one thread
    base_jobs = [{"id": i, "byte": -1, "prior": [], "routine": n, "argset": k}
                 for i, (n, k) in enumerate((n, k) for n in names for k in range(nargs))]
    base = {(j["routine"], j["argset"]): r_ for j, r_ in zip(base_jobs, run_worker(b, False, base_jobs, 1))}
    for (n, k), r_ in base.items():
        if "worker_error" in r_:
            raise core.MachineryError("baseline worker error for %s: %s" % (n, r_["worker_error"]))
    # poisoned replays, one worker process per thread count (run in parallel)
    from concurrent.futures import ThreadPoolExecutor
    bythreads = {}
    for i, hh in enumerate(hists):
        job = {"id": i, "byte": hh["byte"] if hh["byte"] else -1 if not hh["prior"] else 0,
               "prior": [[PR.DIRTY[p[0] - 1], p[1] - 1] for p in hh["prior"]],
               "routine": names[hh["routine"] - 1], "argset": hh["argset"] - 1}
        job["byte"] = hh["byte"]
        bythreads.setdefault(hh["threads"], []).append(job)
    work = []
    for th, jobs in bythreads.items():
        for i in range(0, len(jobs), 800):
            work.append((th, jobs[i:i + 800]))
    with ThreadPoolExecutor(8) as ex:
        outs = list(ex.map(lambda w: run_worker(b, True, w[1], w[0]), work))
    for (th, jobs), res in zip(work, outs):
        for job, r_ in zip(jobs, res):
            if "worker_error" in r_:
                raise core.MachineryError("worker error: %s" % r_["worker_error"])
            ref = base[(job["routine"], job["argset"])]
            nontriv = job["byte"] != 0 or job["prior"]
            ctx.case((job["routine"], job["argset"], job["byte"], str(job["prior"]), th) if nontriv else None,
                     sample={"history": job, "threads": th, "result": r_.get("value")} if job["prior"] and len(ctx.samples) < 4 else None)
            ctx.traces += 1
            if r_["digest"] != ref["digest"]:
                ctx.violation({"kind": "replay", "history": job, "threads": th, "result": r_.get("value"),
                               "clean_result": ref.get("value"),
                               "how": "same arguments, different bits than in a clean single-threaded process"},
                              key="purity/result-depends-on-history/%s" % job["routine"])
            if not r_.get("args_same", True):
                ctx.violation({"kind": "replay", "history": job, "threads": th, "how": "an argument was modified"},
                              key="purity/argument-modified/%s" % job["routine"])
