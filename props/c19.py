"""C19 -- results depend on arguments only (not on history, threads, heap contents).

Static half: harness/extract/masked_sites.py extracts from the CURRENT source every
masked element-wise call (ufunc with where=) and every uninitialised allocation; the table
becomes the constant `Sites` of specs/purity/Purity.tla and TLC decides, by self-composition
over all masks and all heap histories, at which sites a result can read junk.
Dynamic half (spec -> code): TLC enumerates the call histories (poison pattern, up to two prior
calls from a 'dirtying' alphabet, thread count) and the calls (routine x argument set) of
specs/purity/PurityHist.tla; a section of their product (every call with the mandatory
histories, plus a seed-rotated stride through the rest) is replayed in worker processes whose
numpy allocator fills fresh blocks with the pattern; the result must be bit-identical to the
same call in a clean single-threaded process, and every argument (nested lists, ndarrays,
sparse data/indices/indptr, RaggedArrays, trajectories) must be bit-identical before and after
the call, except documented out= buffers.
"""
import json
import os
import subprocess

from harness import core
from harness.extract import masked_sites

SPEC_DIR = os.path.join(core.SPECS, "purity")


def run_worker(build, poison, jobs, threads):
    d = core.scratch("ev_c19_")
    resf = os.path.join(d, "res.json")
    # passive waiting: idle OpenMP threads sleep instead of spinning (several workers with up to 16 threads each share
    # the machine with other checks); the schedule of the parallel loops is unaffected
    env = dict(os.environ, OMP_NUM_THREADS=str(threads), OMP_WAIT_POLICY="PASSIVE", GOMP_SPINCOUNT="0", PYTHONPATH="")
    p = subprocess.run([core.PY, os.path.join(core.VERIF, "harness", "purity_worker.py"), build,
                        "1" if poison else "0", resf], input=json.dumps(jobs), stdout=subprocess.PIPE,
                       stderr=subprocess.PIPE, text=True, env=env, timeout=3000)
    if p.returncode != 0 or not os.path.exists(resf):
        last = [l for l in p.stderr.splitlines() if l.startswith("JOB ")][-1:]
        raise core.MachineryError("purity worker failed (last job %s): %s" % (last, p.stderr[-2500:]))
    return json.load(open(resf))


def import_history(ctx, b):
    """history = the set of library modules imported before the call (harness/import_history.py)"""
    runs = {}
    for th in (1, 4):
        for order in ("late", "early"):
            env = dict(os.environ, OMP_NUM_THREADS=str(th), OMP_WAIT_POLICY="PASSIVE", PYTHONPATH="")
            p = subprocess.run([core.PY, os.path.join(core.VERIF, "harness", "import_history.py"), b, order],
                               stdout=subprocess.PIPE, stderr=subprocess.PIPE, text=True, env=env, timeout=900)
            if p.returncode != 0:
                raise core.MachineryError("import_history %s/%d failed: %s" % (order, th, p.stderr[-1500:]))
            line = [l for l in p.stdout.splitlines() if l.startswith("IMPORT-HISTORY ")]
            if not line:
                raise core.MachineryError("import_history %s/%d printed no result: %s" % (order, th, p.stdout[-500:]))
            runs[(order, th)] = json.loads(line[-1][len("IMPORT-HISTORY "):])
    # reference: the first evaluation of each probe in the process that loads the least (the numpy probe runs before
    # any part of the library is imported, the kernels' probes right after `import enspara.geometry.libdist`)
    ref = {}
    for st in runs[("late", 1)]["stages"]:
        for name, v in st["probes"].items():
            ref.setdefault(name, v)
    if not runs[("late", 1)]["stages"][0]["probes"]["numpy/float64/1e-160-squared"]["nonzero"]:
        raise core.MachineryError("the interpreter starts with gradual underflow switched off: %s" % ref)
    ctx.notes["import_history"] = {"modules_imported": runs[("late", 1)]["modules"],
                                   "import_errors": runs[("late", 1)]["import_errors"], "probes": sorted(ref)}
    for (order, th), r in sorted(runs.items()):
        for st in r["stages"]:
            for name, v in st["probes"].items():
                ctx.case(("import-history", order, th, name, st["after"]))
                ctx.traces += 1
                if v["digest"] != ref[name]["digest"]:
                    ctx.violation({"kind": "replay", "probe": name, "threads": th, "order": order,
                                   "modules_imported_before_the_call": st["after"],
                                   "result_first_value": v["first"], "nonzero_values": v["nonzero"],
                                   "fresh_process_first_value": ref[name]["first"],
                                   "fresh_process_nonzero_values": ref[name]["nonzero"],
                                   "how": "the same call with the same arguments returns other bits once the named module "
                                          "has been imported into the process (harness/import_history.py <build> %s, "
                                          "OMP_NUM_THREADS=%d)" % (order, th)},
                                  key="purity/result-depends-on-imports/%s" % name)


def run(ctx):
    ctx.rule = ("static: every masked-ufunc / uninitialised-allocation site of the source x every mask x every heap history "
                "of depth <= MaxHist (TLC); dynamic: TLC-enumerated histories (pattern, <=2 prior calls, threads) x routine "
                "x argument set replayed under the poisoning allocator; non-trivial = poisoned history (pattern != 0 or prior "
                "calls) of a routine whose arguments contain masked-out cells or that allocates work arrays")
    ctx.assumptions += ["the heap is observed through numpy's data allocator (PyDataMem_SetHandler); memory obtained by C "
                        "extensions through malloc directly is not poisoned",
                        "OpenMP thread counts 1/2/4/16 via OMP_NUM_THREADS; the actual interleavings are the runtime's",
                        "routine alphabet = the numerical API listed in harness/purity_routines.py (options, containers, dtypes, "
                        "memory layouts as named variants), 3 argument sets each; the quick tier replays two argument sets per "
                        "routine (rotated by VERIF_SEED), the thorough tier all of them",
                        "routines randomised without a seed argument (synthetic_trajectory, msm.bootstrap, KMedoids from n_clusters "
                        "alone) and routines that need trajectory files are outside the alphabet; see the SKIPPED / EXCLUDED "
                        "comments of harness/purity_routines.py"]
    b = core.build_repo()
    # ---- static half
    sites = masked_sites.extract(b)
    ctx.notes["sites"] = sites
    d = core.spec_tmp(SPEC_DIR)
    table = "<<" + ", ".join('[site |-> "%s|%s|%s", kind |-> "%s"]' % (s["site"].split(":")[0], s["func"], s["call"], s["kind"])
                             for s in sites) + ">>"
    with open(os.path.join(d, "MC_Purity.tla"), "w") as fh:      # the extracted routine table as a definition
        fh.write("---- MODULE MC_Purity ----\nEXTENDS Purity\nSitesTable == %s\n====\n" % table)
    table = "<- SitesTable"
    core.write_cfg(os.path.join(d, "static.cfg"), constants=dict(Sites=table, NCells="3", MaxHist="3"),
                   invariants=["Report", "Modelled", "SameResultOrReported"])
    r = ctx.tlc("MC_Purity", "static.cfg", d, label="static: sites x masks x histories", workers=4, coverage=True)
    junk = {}
    modelled = set()
    for t, p in r.prints:
        if t == "JUNKREAD":
            junk[p[0]] = p[1]
        elif t == "SITE":
            modelled.add(p[0])
    for s in sites:
        sid = "%s|%s|%s" % (s["site"].split(":")[0], s["func"], s["call"])
        ctx.case(("site", sid), sample={"site": s["site"], "kind": s["kind"], "junk_read_possible": sid in junk})
        if sid in junk and s["kind"] != "empty_unknown":
            ctx.violation({"kind": "model", "site": s, "how": "Purity.tla: a history and a mask exist for which the result reads a "
                           "cell the routine never initialised (masked ufunc without out= buffer)"},
                          key="purity/junk-read/%s/%s/%s" % (s["site"].split(":")[0], s["func"], s["call"]))
    ctx.notes["unmodelled_empty_sites"] = [s["site"] for s in sites if s["kind"] == "empty_unknown"]
    if len(modelled) != len({"%s|%s|%s" % (s["site"].split(":")[0], s["func"], s["call"]) for s in sites}):
        raise core.MachineryError("TLC did not reach every extracted site")
    import_history(ctx, b)
    # ---- dynamic half
    import sys
    sys.path.insert(0, b)
    sys.path.insert(0, os.path.join(core.VERIF, "harness", "fakempi"))
    from harness import purity_routines as PR
    names = PR.ROUTINES.names()
    quick = ctx.tier != "thorough"
    nargs = PR.NSETS
    nprior = 2 if quick else PR.NSETS
    consts = dict(NRoutines=str(len(names)), NDirty=str(len(PR.DIRTY)), NArgsets=str(nargs), NPriorArgsets=str(nprior))
    core.write_cfg(os.path.join(d, "hist.cfg"), init="HInit", next_="HNext", invariants=["EmitHist"], constants=consts)
    core.write_cfg(os.path.join(d, "calls.cfg"), init="CInit", next_="HNext", invariants=["EmitCall"], constants=consts)
    rh, rc = ctx.tlc_parallel([dict(module="PurityHist", cfg="hist.cfg", cwd=d, label="history enumeration", workers=1, timeout=3000),
                               dict(module="PurityHist", cfg="calls.cfg", cwd=d, label="call enumeration", workers=1, timeout=3000)])
    hists = [p for t, p in rh.prints if t == "CASE"]
    calls = [p for t, p in rc.prints if t == "CALL"]
    if not hists or len(calls) != len(names) * nargs:
        raise core.MachineryError("history / call enumeration incomplete (%d histories, %d calls)" % (len(hists), len(calls)))
    hists.sort(key=lambda hh: (len(hh["prior"]), str(hh["prior"]), hh["byte"], hh["threads"]))
    ctx.notes["histories_enumerated"] = len(hists)
    ctx.notes["calls_enumerated"] = len(calls)
    ctx.notes["routines"] = len(names)
    # section of Calls x Histories that is replayed.  quick: every routine with TWO of its three argument sets, rotated
    # by the seed (the thorough tier replays every argument set); per call the mandatory histories (NaN pattern, no prior call,
    # 1 and 16 threads) plus `extra` histories taken at a seed-rotated stride through the enumeration.
    extra = 3 if quick else 72
    mand = [hh for hh in hists if not hh["prior"] and hh["byte"] == 255 and hh["threads"] in (1, 16)]
    rest = [hh for hh in hists if hh not in mand]
    pairs = []
    for c in sorted(calls, key=lambda c: (c["routine"], c["argset"])):
        n, k = names[c["routine"] - 1], c["argset"] - 1
        if quick and (k - PR.hash_name(n) - ctx.seed) % nargs >= 2:
            continue
        pairs.append((n, k))
    ctx.exhaustive = False
    jobs_all = []
    for pi, (n, k) in enumerate(pairs):
        sel = list(mand)
        h0 = (PR.hash_name(n) * 31 + k * 7 + ctx.seed * 13) % len(rest)
        step = max(1, len(rest) // extra) + 1
        sel += [rest[(h0 + j * step) % len(rest)] for j in range(extra)]
        for hh in sel:
            jobs_all.append((hh["threads"], {"id": len(jobs_all), "byte": hh["byte"],
                                             "prior": [[PR.DIRTY[p[0] - 1], p[1] - 1] for p in hh["prior"]],
                                             "routine": n, "argset": k}))
    # baseline: clean process, one thread -- runs concurrently with the poisoned replays
    base_jobs = [{"id": i, "byte": -1, "prior": [], "routine": n, "argset": k} for i, (n, k) in enumerate(pairs)]
    bythreads = {}
    for th, job in jobs_all:
        bythreads.setdefault(th, []).append(job)
    chunk = 450 if quick else 1500
    work = [("base", 1, base_jobs)]
    for th, jobs in sorted(bythreads.items()):
        for i in range(0, len(jobs), chunk):
            work.append(("poison", th, jobs[i:i + chunk]))
    from concurrent.futures import ThreadPoolExecutor
    with ThreadPoolExecutor(8) as ex:
        outs = list(ex.map(lambda w: run_worker(b, w[0] == "poison", w[2], w[1]), work))
    base = {}
    raised = []
    for j, r_ in zip(base_jobs, outs[0]):
        n, k = j["routine"], j["argset"]
        if "worker_error" in r_:
            raise core.MachineryError("baseline worker error for %s/%d: %s" % (n, k, r_["worker_error"]))
        base[(n, k)] = r_
        ctx.case(("clean", n, k))
        ctx.traces += 1
        if r_.get("raised") and not n.startswith("fails/"):
            raised.append("%s[%d]: %s" % (n, k, r_.get("value")))
        if r_.get("repeat_same") is False:
            ctx.violation({"kind": "replay", "history": j, "threads": 1, "result": r_.get("value"),
                           "how": "the same call made twice in a row (on the same out= buffer) returned different bits"},
                          key="purity/repeat-differs/%s" % n)
        if r_.get("process_state_changed"):
            ctx.violation({"kind": "replay", "history": j, "threads": 1, "changed": r_["process_state_changed"],
                           "how": "process-wide settings differ after the call (clean process): [before, after]"},
                          key="purity/process-state-changed/%s" % n)
        if r_.get("reuse_same") is False:
            ctx.violation({"kind": "replay", "history": j, "threads": 1,
                           "how": "call, overwrite the ndarray arguments IN PLACE with the values of the next argument set, call "
                                  "again on the same objects: the result differs from the call on fresh objects holding those "
                                  "values (harness/purity_worker.py, reuse_same)"},
                          key="purity/result-depends-on-object-history/%s" % n)
        if "reuse_same" in r_:
            ctx.notes["reuse_same_object_jobs"] = ctx.notes.get("reuse_same_object_jobs", 0) + 1
        if not r_.get("args_same", True):
            ctx.violation({"kind": "replay", "history": j, "threads": 1, "arguments_changed": r_.get("args_changed"),
                           "how": "an argument was modified by the call (clean single-threaded process); positions "
                                  "listed in arguments_changed differ bitwise after the call"},
                          key="purity/argument-modified/%s" % n)
    # every call of the alphabet returns a value on the unchanged tree; a call that raises cannot be judged
    ctx.notes["baseline_calls_that_raised"] = raised
    if raised:
        print("C19 note: %d call(s) of the alphabet raised in the clean process (result compared as the exception type): %s"
              % (len(raised), "; ".join(raised[:5])))
    for (kind, th, jobs), res in zip(work[1:], outs[1:]):
        for job, r_ in zip(jobs, res):
            if "worker_error" in r_:
                raise core.MachineryError("worker error in %s/%d: %s" % (job["routine"], job["argset"], r_["worker_error"]))
            ref = base[(job["routine"], job["argset"])]
            nontriv = job["byte"] != 0 or job["prior"]
            ctx.case((job["routine"], job["argset"], job["byte"], str(job["prior"]), th) if nontriv else None,
                     sample={"history": job, "threads": th, "result": r_.get("value")} if job["prior"] and len(ctx.samples) < 4 else None)
            ctx.traces += 1
            if r_.get("process_state_changed"):
                ctx.violation({"kind": "replay", "history": job, "threads": th, "changed": r_["process_state_changed"],
                               "how": "process-wide settings differ after the history + call: [before, after] (a prior call "
                                      "of the history may have left them behind, e.g. one that failed)"},
                              key="purity/process-state-changed/after-history")
            if r_["digest"] != ref["digest"]:
                ctx.violation({"kind": "replay", "history": job, "threads": th, "result": r_.get("value"),
                               "clean_result": ref.get("value"),
                               "how": "same arguments, different bits than in a clean single-threaded process"},
                              key="purity/result-depends-on-history/%s" % job["routine"])
            if not r_.get("args_same", True):
                ctx.violation({"kind": "replay", "history": job, "threads": th, "arguments_changed": r_.get("args_changed"),
                               "how": "an argument was modified"},
                              key="purity/argument-modified/%s" % job["routine"])
