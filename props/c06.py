"""C06 -- ragged-array writes keep all views coherent over any operation history.

Model: specs/ragged/RaggedWrite.tla (abstract rows + the concrete fields data / arr /
lengths updated the way each writer of RaggedArray updates them; Coherent after every
action; operators return new objects and leave operands untouched).  TLC checks the
model exhaustively (history hidden by a VIEW) and generates histories: every single
operation from every initial shape, every pair of operations (thorough), and simulated
walks.  Each history is applied to the real object; after EVERY step ALL observers
(iteration, flatten + lengths, starts, per-row reads, ==, reductions, shape/size, the
previous object after an augmented assignment, the caller's buffer) are compared with the
abstract value the specification holds at that step.
"""
import os

import numpy as np

from harness import core

SPEC_DIR = os.path.join(core.SPECS, "ragged")
NONE = 1000000
INVS = ["Coherent", "WellFormedAlways", "StructureKept"]
PROPS = ["OperandsUntouched", "AugmentedLeavesOldObject", "LengthsOnlyGrowByAppend"]
PYOP = {"add": "__add__", "sub": "__sub__", "mul": "__mul__", "floordiv": "__floordiv__", "mod": "__mod__",
        "gt": "__gt__", "eq": "__eq__", "le": "__le__"}


def _n(x):
    return None if x == NONE else x


def _rows(ra_obj):
    return [[int(v) for v in np.asarray(r).reshape(-1)] for r in ra_obj]


def observe(ra_mod, a, exp, dt=None):
    """all observers of the object vs the expected rows; returns list of failing observer names. dt: the element type
    the array was built with -- rows and flat data must keep it through every write (an ndarray row does)"""
    bad = []

    def chk(name, f):
        try:
            if not f():
                bad.append(name)
        except Exception as ex:
            bad.append("%s(raises %s)" % (name, type(ex).__name__))
    flat = [v for r in exp for v in r]
    lens = [len(r) for r in exp]
    starts = [sum(lens[:i]) for i in range(len(lens))]
    chk("iteration", lambda: _rows(a) == exp)
    chk("flatten", lambda: [int(v) for v in a.flatten()] == flat)
    chk("lengths", lambda: [int(v) for v in a.lengths] == lens)
    chk("starts", lambda: [int(v) for v in a.starts] == starts)
    chk("len", lambda: len(a) == len(exp))
    chk("row-reads", lambda: all([int(v) for v in np.asarray(a[i]).reshape(-1)] == exp[i] for i in range(len(exp))))
    chk("neg-row-reads", lambda: [int(v) for v in np.asarray(a[-1]).reshape(-1)] == exp[-1])
    chk("element-reads", lambda: all(int(a[i, j]) == exp[i][j] for i in range(len(exp)) for j in range(len(exp[i]))))
    chk("eq", lambda: bool((a == ra_mod.RaggedArray([np.array(r) for r in exp])).all()))
    chk("max", lambda: int(a.max()) == max(flat))
    chk("min", lambda: int(a.min()) == min(flat))
    chk("size", lambda: int(a.size) == len(flat))
    chk("shape", lambda: a.shape[0] == len(exp) and (a.shape[1] == lens[0] if len(set(lens)) == 1 else a.shape[1] is None))
    def scribbled():
        f = a.flatten()
        f[...] = -77
        return _rows(a) == exp
    chk("flatten-is-a-copy", scribbled)
    if dt is not None:
        chk("flatten-dtype", lambda: a.flatten().dtype == dt)
        chk("row-dtype", lambda: all(np.asarray(a[i]).dtype == dt for i in range(len(exp))))
        chk("rowslice-dtype", lambda: a[0:len(exp)].flatten().dtype == dt)
    return bad


class BoolTwin:
    """a boolean array that receives the same writes (value v becomes v > 1) at the same places: after every step
    ~twin must be the element-wise negation and select the complement"""

    def __init__(self, ra_mod, init):
        self.ra = ra_mod
        self.b = ra_mod.RaggedArray([np.array(r) > 1 for r in init])
        self.alive = True

    def write(self, a, op):
        """a: the integer array BEFORE the operation"""
        n = op["op"]
        b = self.b
        f = lambda v: bool(v > 1)          # noqa: E731
        if n == "setelem":
            b[op["r"], op["c"]] = f(op["v"])
        elif n == "setrow":
            b[op["r"]] = np.array(op["vals"]) > 1
        elif n == "setrowslice":
            b[op["r"], slice(_n(op["a"]), _n(op["b"]), _n(op["st"]))] = f(op["v"])
        elif n == "setblock":
            b[slice(_n(op["ra"]), _n(op["rb"])), slice(_n(op["ca"]), _n(op["cb"]))] = f(op["v"])
        elif n == "setcol":
            b[slice(_n(op["ra"]), _n(op["rb"])), op["c"]] = f(op["v"])
        elif n == "setpairs":
            b[(list(op["rs"]), list(op["cs"]))] = [f(v) for v in op["vals"]]
        elif n == "setrows":
            vals = [np.array(v) > 1 for v in op["vals"]]
            b[slice(_n(op["ra"]), _n(op["rb"]))] = self.ra.RaggedArray(vals) if op["asRA"] else vals
        elif n == "append":
            vals = [np.array(v) > 1 for v in op["vals"]]
            b.append(self.ra.RaggedArray(vals) if op["asRA"] else vals)
        elif n in ("setmask", "setmaskcols", "augmented"):
            self.alive = False             # (positions / values depend on the integer values: the twin stops here)

    def check(self, a, exp):
        want = [[v > 1 for v in r] for r in exp]
        bad = []
        try:
            got = [[bool(v) for v in np.asarray(r).reshape(-1)] for r in self.b]
            if got != want:
                return ["bool-twin-rows"]
            inv = ~self.b
            if [[v for v in np.asarray(r).reshape(-1).tolist()] for r in inv] != [[not v for v in r] for r in want]:
                bad.append("bool-twin-invert")
            sel = a[inv]
            if sorted(int(v) for v in np.asarray(sel).reshape(-1)) != sorted(v for r in exp for v in r if not v > 1):
                bad.append("bool-twin-invert-selects")
            if self.b.flatten().dtype != np.bool_:
                bad.append("bool-twin-dtype")
        except Exception as ex:
            bad.append("bool-twin(raises %s)" % type(ex).__name__)
        return bad


def replay_case(arg):
    case, form = arg
    from enspara import ra
    hist, trail = case["hist"], case["trail"]
    init = trail[0]["rows"]
    flat = np.array([v for r in init for v in r])
    lens = [len(r) for r in init]
    # every copying constructor form; `callers` are the caller's ndarrays handed to it (none may be aliased)
    callers = []
    if form == "rect2d" and len(set(lens)) != 1:
        form = "nested"
    if form == "single-flat" and len(init) != 1:
        form = "flat-ndlens"
    if form == "nested":
        callers = [np.array(r) for r in init]
        a = ra.RaggedArray(list(callers))
    elif form == "lists":
        a = ra.RaggedArray([list(r) for r in init])
    elif form == "rect2d":
        callers = [np.array(init)]
        a = ra.RaggedArray(callers[0])
    elif form == "single-flat":
        callers = [flat.copy()]
        a = ra.RaggedArray(callers[0])
    elif form == "flat-ndlens":
        callers = [flat.copy(), np.array(lens)]
        a = ra.RaggedArray(callers[0], lengths=callers[1])
    else:
        callers = [flat.copy()]
        a = ra.RaggedArray(callers[0], lengths=lens, copy=True)
    caller = callers[0] if callers and form not in ("nested",) else None
    callers0 = [c.copy() for c in callers]
    out = []
    dt0 = a.flatten().dtype
    twin = BoolTwin(ra, init)
    b0 = observe(ra, a, init, dt0)
    if b0:
        out.append(("construct/%s" % form, 0, b0, None))
        return out
    prev_obj = None
    # an iterator opened before the history and advanced by one row after every step: like an iterator over a list of
    # rows it must hand out row k as it is NOW (after the writes made so far), walk into appended rows, and stay
    # exhausted once it ran off the end
    it, it_pos, it_done = iter(a), 0, False
    for i, op in enumerate(hist):
        exp = trail[i + 1]["rows"]
        expres = trail[i + 1]["res"]
        name = op["op"]
        site = name
        try:
            if twin.alive:
                twin.write(a, op)
            if name == "setelem":
                a[op["r"], op["c"]] = op["v"]
            elif name == "setrow":
                a[op["r"]] = np.array(op["vals"])
            elif name == "setrowslice":
                a[op["r"], slice(_n(op["a"]), _n(op["b"]), _n(op["st"]))] = op["v"]
            elif name == "setblock":
                a[slice(_n(op["ra"]), _n(op["rb"])), slice(_n(op["ca"]), _n(op["cb"]))] = op["v"]
            elif name == "setcol":
                a[slice(_n(op["ra"]), _n(op["rb"])), op["c"]] = op["v"]
            elif name == "setpairs":
                a[(list(op["rs"]), list(op["cs"]))] = list(op["vals"])
            elif name == "setmask":
                site = "setmask/empty-mask" if op["empty"] else "setmask"
                a[a > op["t"]] = op["v"]
            elif name == "setmaskcols":
                site = "setmaskcols/empty-mask" if op["empty"] else "setmaskcols"
                a[a[:, :op["cb"]] > op["t"]] = op["v"]
            elif name == "setrows":
                vals = [np.array(v) for v in op["vals"]]
                site = "setrows/RaggedArray-value" if op["asRA"] else "setrows/list-value"
                a[slice(_n(op["ra"]), _n(op["rb"]))] = ra.RaggedArray(vals) if op["asRA"] else vals
            elif name == "append":
                vals = [np.array(v) for v in op["vals"]]
                site = "append/RaggedArray" if op["asRA"] else "append/list"
                a.append(ra.RaggedArray(vals) if op["asRA"] else vals)
            elif name in ("binscalar", "binself"):
                before = _rows(a)
                other = op["k"] if name == "binscalar" else a
                r = getattr(a, PYOP[op["o"]])(other)
                site = "%s/%s" % (name, op["o"])
                got = [[int(v) for v in row] for row in r]
                if got != expres["v"]:
                    out.append((site, i + 1, ["operator-result"], {"got": got, "expected": expres["v"]}))
                if r is a or np.shares_memory(np.asarray(r._data), np.asarray(a._data)):
                    out.append((site, i + 1, ["operator-returns-alias"], None))
                if _rows(a) != before:
                    out.append((site, i + 1, ["operand-modified"], None))
            elif name == "invert":
                before = _rows(a)
                r = ~a
                got = [[int(v) for v in row] for row in r]
                if got != expres["v"]:
                    out.append((site, i + 1, ["operator-result"], {"got": got, "expected": expres["v"]}))
                if r is a or np.shares_memory(np.asarray(r._data), np.asarray(a._data)):
                    out.append((site, i + 1, ["operator-returns-alias"], None))
                if _rows(a) != before:
                    out.append((site, i + 1, ["operand-modified"], None))
            elif name == "augmented":
                prev_obj = a
                site = "augmented/%s" % op["o"]
                if op["o"] == "add":
                    a += op["k"]
                elif op["o"] == "mul":
                    a *= op["k"]
                else:
                    a -= op["k"]
                pb = observe(ra, prev_obj, trail[i + 1]["prev"])
                if pb:
                    out.append((site, i + 1, ["old-object-changed:" + ",".join(pb)], None))
            elif name == "reduce":
                f = op["f"]
                r = getattr(a, f)()
                site = "reduce/" + f
                if int(r) != expres["v"]:
                    out.append((site, i + 1, ["reduction"], {"got": int(r), "expected": expres["v"]}))
            elif name == "callerscribbles":
                for c_ in callers:
                    c_[...] = op["v"]
                callers0 = [c.copy() for c in callers]
        except Exception as ex:
            out.append((site, i + 1, ["raises-%s" % type(ex).__name__], "%s: %s" % (type(ex).__name__, str(ex)[:160])))
            return out
        bad = observe(ra, a, exp, dt0)
        if not bad and twin.alive:
            bad = twin.check(a, exp)
        if bad:
            out.append((site, i + 1, bad, {"expected": exp, "iteration": _safe_rows(a)}))
            return out
        if name == "augmented":            # the name is rebound to a new object: a new iteration starts
            it, it_pos, it_done = iter(a), 0, False
        else:
            try:
                got_row = [int(v) for v in np.asarray(next(it)).reshape(-1)]
            except StopIteration:
                got_row = None
            want_row = None if it_done or it_pos >= len(exp) else exp[it_pos]
            if got_row != want_row:
                out.append((site, i + 1, ["open-iterator"], {"position": it_pos, "got": got_row, "expected": want_row,
                                                             "rows_now": exp}))
                return out
            if want_row is None:
                it_done = True
            else:
                it_pos += 1
        if name != "callerscribbles":
            # a write to the array must not show in the caller's buffers either
            if any(not np.array_equal(c_, c0) for c_, c0 in zip(callers, callers0)):
                out.append((site, i + 1, ["caller-buffer-aliased"], {"construction": form}))
                return out
    out += wide_variants(ra, hist, trail)
    return out


def wide_variants(ra, hist, trail):
    """single-operation histories once more on a NARROW array (int16) with a WIDE operand (numpy int64 scalar / int64
    rows whose values do not fit 16 bits).  A list of int16 rows combined with an int64 operand gives exact int64
    results (numpy's promotion), and appended rows keep their values; the expectation is the emitted one, shifted by
    what the wider operand adds (the operators are linear in the operand)."""
    out = []
    if len(hist) != 1:
        return out
    op, init = hist[0], trail[0]["rows"]
    name = op["op"]
    try:
        a = ra.RaggedArray([np.array(r, dtype=np.int16) for r in init])
        if name == "binscalar" and op["o"] in ("add", "sub", "mul"):
            k, big = op["k"], np.int64(op["k"] * 3000)
            r = getattr(a, PYOP[op["o"]])(big)
            got = [[int(v) for v in row] for row in r]
            base = trail[1]["res"]["v"]
            if op["o"] == "mul":
                exp = [[v * 3000 for v in row] for row in base]
            elif op["o"] == "add":
                exp = [[v + 2999 * k for v in row] for row in base]
            else:
                exp = [[v - 2999 * k for v in row] for row in base]
            if got != exp:
                out.append(("binscalar/%s/int16-array-with-int64-scalar" % op["o"], 1, ["operator-result"],
                            {"got": got, "expected": exp, "operand": int(big)}))
            if _rows(a) != init:
                out.append(("binscalar/%s/int16-array-with-int64-scalar" % op["o"], 1, ["operand-modified"], None))
        elif name == "append":
            vals = [np.array(v, dtype=np.int64) + 40000 for v in op["vals"]]
            a.append(ra.RaggedArray(vals) if op["asRA"] else vals)
            exp = [list(r) for r in init] + [[int(x) for x in v] for v in vals]
            bad = observe(ra, a, exp)
            if bad:
                out.append(("append/int16-array-with-int64-rows", 1, bad, {"expected": exp, "iteration": _safe_rows(a)}))
    except Exception as ex:
        out.append(("%s/narrow-array-wide-operand" % name, 1, ["raises-%s" % type(ex).__name__], "%s: %s" % (type(ex).__name__, str(ex)[:160])))
    return out


def _safe_rows(a):
    try:
        return _rows(a)
    except Exception as ex:
        return "raises %s" % type(ex).__name__


def consts(sc):
    d = {k: str(v) for k, v in sc.items() if k != "Fresh"}
    d["Fresh"] = "{" + ", ".join(str(x) for x in sc["Fresh"]) + "}"
    return d


def run(ctx):
    ctx.rule = ("TLC generates operation histories from every initial shape (rows of distinct cell ids): all single "
                "operations, all pairs (thorough), simulated walks of length 6; each history is applied to a real "
                "RaggedArray built by one of six constructor forms (caller's buffers watched) and all observers are compared after every step; non-trivial = a history "
                "with at least one write that changes a value")
    ctx.assumptions += ["integer elements; shape-preserving assignments, append and operators (the write grammar of DESIGN.md 6/C06); "
                        "index expressions that are invalid on a list of rows are C05's subject and are not generated",
                        "negative column-slice starts are excluded from writes (known C05 finding on reads)"]
    b = core.build_repo()
    core.activate(b)
    d = core.spec_tmp(SPEC_DIR)
    quick = ctx.tier == "quick"
    jobs = []
    # (1) design-level exhaustive check with one history per distinct state (history hidden by the VIEW)
    sc = dict(MaxRows=2, MaxLen=2, Depth=2 if quick else 3, Fresh=[7])
    core.write_cfg(os.path.join(d, "mc.cfg"), constants=consts(sc), invariants=INVS + ["EmitInv"], properties=PROPS,
                   view="HistView")
    jobs.append(dict(module="RaggedWrite", cfg="mc.cfg", cwd=d, label="exhaustive (VIEW), one history per state %s" % sc,
                     workers=1, timeout=3000, java_opts=("-Xmx3g",)))
    sc3 = dict(MaxRows=3, MaxLen=3, Depth=1 if quick else 2, Fresh=[7])
    core.write_cfg(os.path.join(d, "mc3.cfg"), constants=consts(sc3), invariants=INVS, properties=PROPS, view="HistView")
    jobs.append(dict(module="RaggedWrite", cfg="mc3.cfg", cwd=d, label="exhaustive (VIEW) %s" % sc3, workers=4, timeout=3000,
                     coverage=True, java_opts=("-Xmx3g",)))
    # (2) every single operation from every initial shape
    sce = dict(MaxRows=3, MaxLen=2, Depth=1, Fresh=[7, 9])
    core.write_cfg(os.path.join(d, "emit.cfg"), constants=consts(sce), invariants=["EmitInv"])
    jobs.append(dict(module="RaggedWrite", cfg="emit.cfg", cwd=d, label="all single operations %s" % sce, workers=1,
                     timeout=3000, java_opts=("-Xmx3g",)))
    # (3) simulated walks of length 6 (behaviours written to files by TLC)
    scs = dict(MaxRows=3, MaxLen=3, Depth=6, Fresh=[7, 9])
    core.write_cfg(os.path.join(d, "sim.cfg"), constants=consts(scs), invariants=INVS)
    nsim, nproc = (40, 4) if quick else (200, 8)
    simdirs = []
    for i in range(nproc):
        sd = os.path.join(d, "sim%d" % i)
        os.makedirs(sd)
        simdirs.append(sd)
        jobs.append(dict(module="RaggedWrite", cfg="sim.cfg", cwd=d, label="simulated walks (%d x depth 6) #%d" % (nsim, i),
                         workers=1, simulate="file=%s/tr,num=%d" % (sd, nsim), seed=ctx.seed * 100 + i + 6,
                         extra=["-depth", "7"], timeout=3000, java_opts=("-Xmx2g",)))
    res = ctx.tlc_parallel(jobs)
    cases = []
    for r in (res[0], res[2]):
        cases += [p for t, p in r.prints if t == "CASE"]
    nwalk = 0
    for sd in simdirs:
        for states in core.parse_sim_traces(sd):
            last = states[-1]
            if last.get("hist"):
                cases.append({"hist": last["hist"], "trail": last["trail"]})
                nwalk += 1
    ctx.notes["simulated_walks"] = nwalk
    if len(cases) < 100 or nwalk == 0:
        raise core.MachineryError("only %d histories / %d walks generated" % (len(cases), nwalk))
    forms = ["nested", "flat", "lists", "flat-ndlens", "rect2d", "single-flat"]
    args = [(c, forms[i % 6]) for i, c in enumerate(cases)]
    outs = core.pmap(replay_case, args, chunk=100)
    for (c, form), out in zip(args, outs):
        writes = [h for h in c["hist"] if h["op"].startswith("set") or h["op"] in ("append", "augmented")]
        ctx.case((str(c["trail"][0]["rows"]), str(c["hist"]), form) if writes else None,
                 sample={"init": c["trail"][0]["rows"], "form": form, "hist": c["hist"], "final": c["trail"][-1]["rows"]}
                 if len(writes) >= 3 else None)
        ctx.traces += 1
        for site, step, bad, detail in out:
            for bname in bad:
                ctx.violation({"kind": "replay", "construction": form, "init": c["trail"][0]["rows"], "history": c["hist"],
                               "failing_step": step, "observer": bname, "detail": detail,
                               "how": "RaggedArray vs RaggedWrite.tla after step %d" % step},
                              key="ra-write/%s/%s" % (site, bname.split(":")[0]))
    ctx.exhaustive = False
