"""C05 -- reading a ragged array equals reading the list of its rows.

Specs: specs/ragged/Ragged.tla (abstract rows, Partition/Flatten, attributes),
specs/ragged/RaggedRead.tla (index grammar, Get = list-of-rows definition, the
pinned flat-offset arithmetic transcribed, index classes, step machine) and
specs/ragged/PySliceSelfTest.tla (PySlice against CPython).

TLC (a) model-checks the step machine of RaggedArray.__getitem__ against the
definition (ReadEq outside the departing classes, NoNeighbourLeak, StepsAgree),
(b) emits every (shape, index expression) of the scope with Get(rows, ix), the
index class, the transcription's result and the design-level verdict, (c) emits
the attributes of every shape.  This driver builds the real RaggedArray in
six forms (nested arrays / flat + list lengths / flat + ndarray lengths,
scalar and 2-vector elements; nested Python lists in the attribute check), evaluates ra[ix], projects the
result (RaggedArray -> rows, ndarray -> flat, numpy scalar -> scalar, exception
-> Err) and compares it with the emitted Get.  Nothing is computed about
slices or offsets in Python: expected values come from TLC.
"""
import collections
import json
import os
import zlib

import numpy as np

from harness import core

SPEC_DIR = os.path.join(core.SPECS, "ragged")
NONE = 1000000
VEC = 1000          # a 2-vector element is (v, v + VEC)

# Which arithmetic Part 3 of RaggedRead.tla transcribes: the pinned tree (FALSE) or ra.py with the proposed
# repairs (TRUE).  Only the design-level statements and the fidelity note depend on it; the verdict on the
# code is always "observed = Get".  Flip to "TRUE" once the repairs are committed to /repo.
PATCHED = os.environ.get("VERIF_C05_PATCHED", "TRUE").upper()   # /repo contains the repairs (fix: commits f6cabcf..d7b8f47)

MC_INVS = ["TypeOK", "Representation", "StepsAgree", "NoNeighbourLeakImpl", "ElementOutsideRaises",
           "ReadEq", "MisshapedOnlyVectorEqualLengths", "DepartAlwaysIsTight"]

FORMS = ["nested-arrays", "nested-lists", "flat+list-lengths", "flat+ndarray-lengths"]
ELEMS = ["scalar", "vec2"]
# index replays: nested lists and nested arrays take the same constructor path (np.concatenate), so the
# list form is compared in the attribute check only
RFORMS = ["nested-arrays", "flat+list-lengths", "flat+ndarray-lengths"]
VARIANTS = [(f, e) for e in ELEMS for f in RFORMS]

# scope per tier.  emit: list of (constants, number of shape shards); mc: the same for the step machine
SCOPES = {
    "quick": dict(
        emit=[(dict(MaxRows=3, MaxLen=3, Bound=4, MaxList=2, MaskMax=4, Pairwise="TRUE", SampleN=1, SampleK=0), 9)],
        mc=[(dict(MaxRows=3, MaxLen=3, Bound=4, MaxList=2, MaskMax=4, Pairwise="TRUE", SampleN=1, SampleK=0), 9, 1)],
        selftest=dict(MaxN=5, B=7)),
    "thorough": dict(
        emit=[(dict(MaxRows=3, MaxLen=3, Bound=4, MaxList=2, MaskMax=6, Pairwise="FALSE", SampleN=8, SampleK=None), 39),
              (dict(MaxRows=4, MaxLen=4, Bound=5, MaxList=2, MaskMax=4, Pairwise="TRUE", SampleN=1, SampleK=0), None)],
        mc=[(dict(MaxRows=3, MaxLen=3, Bound=4, MaxList=2, MaskMax=4, Pairwise="TRUE", SampleN=1, SampleK=0), 4, 4)],
        selftest=dict(MaxN=7, B=9)),
}


# --------------------------------------------------------------------------
# PySlice self-test (TLC table vs CPython)

def _unnone(v):
    return None if v == NONE else v


def selftest(ctx, d=None, run=True):
    """TLC prints Norm/SliceIdx/NormIdx tables; compare with slice.indices(),
    list(range(n))[slice] and integer indexing of CPython.  Returns the TLC job
    (run=False) or checks the result r (selftest_check)."""
    sc = SCOPES[ctx.tier]["selftest"]
    d = d or core.spec_tmp(SPEC_DIR)
    cfg = core.write_cfg(os.path.join(d, "selftest.cfg"), constants={k: str(v) for k, v in sc.items()},
                         invariants=["Consistent", "EmitInv"])
    job = dict(module="PySliceSelfTest", cfg=os.path.basename(cfg), cwd=d, label="PySlice self-test %s" % sc,
               workers=1, timeout=300, java_opts=("-XX:ParallelGCThreads=2",))
    if not run:
        return job
    r = ctx.tlc(**job)
    return selftest_check(ctx, r)


def selftest_check(ctx, r):
    n_cmp = 0
    diffs = []
    tables = [p for t, p in r.prints if t == "SLICE"]
    if not tables:
        raise core.MachineryError("PySlice self-test: no SLICE lines")
    for rec in tables:
        n, step, B = rec["n"], _unnone(rec["step"]), rec["B"]
        bnds = list(range(-B, B + 1)) + [None]
        base = list(range(n))
        for i, a in enumerate(bnds):
            for j, b in enumerate(bnds):
                norm, idx = rec["table"][i][j]
                sl = slice(a, b, step)
                n_cmp += 1
                if tuple(norm) != sl.indices(n) or idx != base[sl] or idx != list(range(*sl.indices(n))):
                    diffs.append(dict(n=n, slice=[a, b, step], tla_norm=norm, py_norm=list(sl.indices(n)),
                                      tla_idx=idx, py_idx=base[sl]))
        for k, i in enumerate(range(-B, B + 1)):
            n_cmp += 1
            try:
                want = base[i]
            except IndexError:
                want = -1
            if rec["normidx"][k] != want:
                diffs.append(dict(n=n, index=i, tla=rec["normidx"][k], py=want))
    ctx.notes["pyslice_selftest"] = {"compared": n_cmp, "differences": len(diffs)}
    if diffs:
        raise core.MachineryError("specs/common/PySlice.tla disagrees with CPython on %d of %d cases, e.g. %r"
                                  % (len(diffs), n_cmp, diffs[:3]))
    return n_cmp


# --------------------------------------------------------------------------
# building arrays, indices; projecting results

def _rows(lens, elem):
    """the per-row numpy arrays for a shape; cell (r, c) holds 10 r + c (RaggedRead!Cell)"""
    rows = []
    for r, l in enumerate(lens):
        ids = np.arange(10 * r, 10 * r + l, dtype=np.int64)
        rows.append(ids if elem == "scalar" else np.stack([ids, ids + VEC], axis=1))
    return rows


def build(lens, form, elem):
    from enspara import ra
    rows = _rows(lens, elem)
    if form == "nested-arrays":
        return ra.RaggedArray([r.copy() for r in rows])
    if form == "nested-lists":
        return ra.RaggedArray([r.tolist() for r in rows])
    flat = np.concatenate(rows)
    if form == "flat+list-lengths":
        return ra.RaggedArray(flat, lengths=list(lens))
    return ra.RaggedArray(flat, lengths=np.array(lens, dtype=int))


def decode(x, elem):
    """element(s) -> cell id(s); anything that is not an embedded cell id is kept verbatim as a string"""
    a = np.asarray(x)
    if a.dtype == object:
        try:
            a = np.array(a.tolist())
        except Exception:
            return "undecodable:%r" % (x,)
    if elem == "scalar":
        if a.ndim == 0:
            return int(a) if float(a) == int(a) else "noninteger:%r" % (a,)
        if a.ndim == 1:
            return [int(v) for v in a.tolist()]
        return "shape%s:%s" % (a.shape, a.tolist())
    # vec2: last axis must be the pair (v, v + VEC)
    if a.ndim == 1 and a.shape[0] == 0:
        return []
    if a.ndim == 0 or a.shape[-1] != 2:
        return "shape%s:%s" % (a.shape, a.tolist())
    if a.ndim == 1:
        return int(a[0]) if a[1] == a[0] + VEC else "notanelement:%s" % a.tolist()
    if a.ndim == 2:
        if np.all(a[:, 1] == a[:, 0] + VEC):
            return [int(v) for v in a[:, 0].tolist()]
        return "notelements:%s" % a.tolist()
    return "shape%s:%s" % (a.shape, a.tolist())


def project(res, elem):
    """RaggedArray -> {'r': rows}, ndarray -> {'f': flat} (or {'v': element}), numpy scalar -> {'v': v}"""
    from enspara import ra
    if isinstance(res, ra.RaggedArray):
        rows = [decode(row, elem) for row in res]          # iteration, as for a list of rows
        out = {"r": rows}
        # the result must be coherent with its own lengths / flat data
        try:
            ls = [int(v) for v in np.asarray(res.lengths).tolist()]
            if ls != [len(r) if isinstance(r, list) else -1 for r in rows]:
                out["incoherent"] = "lengths=%s" % ls
            elif rows:
                fl = res.flatten()
                fl = decode(fl if elem == "scalar" else np.asarray(fl).reshape(-1, 2), elem)
                if fl != [v for r in rows for v in r]:
                    out["incoherent"] = "flatten=%s" % (fl,)
            # ... and keep the element type of the array it was read from (int64 here), as rows of a list would
            if "incoherent" not in out and rows and any(rows) and res.dtype != np.int64:
                out["incoherent"] = "dtype=%s" % res.dtype
        except Exception as ex:
            out["incoherent"] = "%s: %s" % (type(ex).__name__, ex)
        return out
    if isinstance(res, np.ndarray):
        if res.size and res.dtype != np.int64:
            return {"other": "ndarray of dtype %s: %r" % (res.dtype, res.tolist())}
        if elem == "scalar":
            return {"v": decode(res, elem)} if res.ndim == 0 else {"f": decode(res, elem)}
        if res.ndim == 1 and res.shape[0] == 2:
            return {"v": decode(res, elem)}
        return {"f": decode(res, elem)}
    if isinstance(res, np.generic):
        return {"v": decode(res, elem)}
    return {"other": "%s:%r" % (type(res).__name__, res)}


def py_index(enc):
    if "i" in enc:
        return enc["i"]
    if "s" in enc:
        return slice(*[_unnone(v) for v in enc["s"]])
    if "l" in enc:
        return list(enc["l"])
    raise KeyError(enc)


def same(exp, got):
    """ResEq of RaggedRead.tla on the JSON encodings"""
    if "e" in exp:
        return "e" in got
    if "c" in exp:       # column read: 1-d array or rows of length one (RaggedRead!ResEq)
        return got.get("f") == exp["c"] or (got.get("r") == [[v] for v in exp["c"]] and "incoherent" not in got)
    k = next(iter(exp))
    return k in got and got[k] == exp[k] and "incoherent" not in got


def outcome(exp, got):
    if "e" in got:
        return "raises"
    if "e" in exp:
        return "no-error"
    k = next(iter(exp))
    if k == "c":
        return "wrong-data" if ("f" in got or "r" in got) else "wrong-container"
    if k not in got:
        if k == "v" and got.get("f") == [exp["v"]]:
            return "one-element-array-instead-of-element"
        return "wrong-container"
    return "wrong-data"


_cache = {}


def _arrays(lens):
    """the constructed arrays of a shape (per worker process), with the
    variants whose construction already failed the attribute check left out"""
    key = tuple(lens)
    if key not in _cache:
        if len(_cache) > 64:
            _cache.clear()
        d = {}
        for form, elem in VARIANTS:
            try:
                a = build(lens, form, elem)
                rows = [decode(r, elem) for r in a]
                okc = rows == [list(range(10 * r, 10 * r + l)) for r, l in enumerate(lens)]
            except Exception:
                a, okc = None, False
            d[(form, elem)] = (a, okc)
        _cache[key] = d
    return _cache[key]


def replay_batch(rec):
    """One emitted line = (shape, kind, first slot) x all second slots.  Returns
    counts and the mismatches, grouped per case."""
    from enspara import ra
    lens, kind = rec["lens"], rec["kind"]
    arrs = _arrays(lens)
    single = kind in ("I", "S", "L", "M")
    if kind == "M":
        a_ix = None
    else:
        a_ix = py_index(rec["a"])
    ran = ["%s/%s" % v for v in VARIANTS if arrs[v][1]]
    out = dict(n=0, evals=0, nontriv=[], keys={}, percls={}, badcls={}, design_false=[], fid=0, fid_ex=[],
               skipped=0, sample=None)

    def found(b_enc, exp, cls, mis, bad):
        out["badcls"][cls] = out["badcls"].get(cls, 0) + 1
        for key, (vs, got) in keys_for(cls, mis, bad, ran).items():
            e = out["keys"].setdefault(key, [0, None])
            e[0] += 1
            if e[1] is None:
                e[1] = dict(kind="replay", lens=lens, rows=[r_.tolist() for r_ in _rows(lens, "scalar")],
                            index_kind=kind, a=rec["a"], b=b_enc, index_class=cls, mis=mis,
                            expected=exp, observed=got, variants=vs,
                            how="RaggedArray(...)[ix] vs RaggedRead!Get; a={i:int}|{s:[start,stop,step]}|"
                                "{l:list}|{m:mask}, 1000000 = None; elements are cell ids 10*row+col")

    for case in rec["res"]:
        b_enc, exp, cls, d0, mis, ok = case
        out["n"] += 1
        out["percls"][cls] = out["percls"].get(cls, 0) + 1
        if out["sample"] is None and cls == "(*,S)/plain" and len(set(lens)) == 3:
            out["sample"] = dict(lens=lens, rows=rec["a"], cols=b_enc, expected=exp, index_class=cls)
        if not ok:
            out["design_false"].append(dict(lens=lens, kind=kind, a=rec["a"], b=b_enc, cls=cls, get=exp, impl=d0))
        if "e" not in exp and next(iter(exp.values())) not in ([], [[]]):
            out["nontriv"].append(zlib.crc32(json.dumps([lens, kind, rec["a"], b_enc]).encode()))
        bad = {}
        # list operands are also handed over as integer ndarrays -- the SAME array objects for every variant of the
        # case, as a caller reusing its index arrays would; a read must leave them as they are (numpy indexing of a
        # list of rows never writes into its index arrays)
        nd_parts = []

        def as_nd(enc):
            if "l" in enc and len(enc["l"]) > 0:
                arr_ = np.array(enc["l"], dtype=np.int64)
                nd_parts.append((arr_, list(enc["l"])))
                return arr_
            return py_index(enc)
        if kind == "M":
            ix_nd = None
        elif single:
            ix_nd = as_nd(rec["a"])
        else:
            ix_nd = (as_nd(rec["a"]), as_nd(b_enc))
        for vi, (form, elem) in enumerate(VARIANTS):
            arr, okc = arrs[(form, elem)]
            if not okc:
                out["skipped"] += 1       # constructor defect, reported by the attribute check
                continue
            if kind == "M":
                ix = ra.RaggedArray([list(r) for r in rec["a"]["m"]])
            elif nd_parts and vi % 2 == 1:
                ix = ix_nd
            elif single:
                ix = a_ix
            else:
                ix = (a_ix, py_index(b_enc))
            try:
                got = project(arr[ix], elem)
            except Exception as ex:        # the implementation's exception is an observation
                got = {"e": type(ex).__name__}
            out["evals"] += 1
            if not same(exp, got):
                bad[(form, elem)] = (outcome(exp, got), got)
            # fidelity of the transcription (not a verdict): flat + ndarray lengths is what it models
            if form == "flat+ndarray-lengths":
                model = exp if d0 == 0 else d0
                if elem == "vec2" and mis:
                    agree = not same(exp, got)          # model says: misshaped, i.e. not the definition
                elif "e" in model:
                    agree = "e" in got and (model["e"] == "" or model["e"].startswith(got["e"]))
                elif "c" in model:
                    agree = same(model, got)
                else:
                    k = next(iter(model))
                    agree = got.get(k) == model[k]
                if not agree:
                    out["fid"] += 1
                    if len(out["fid_ex"]) < 2:
                        out["fid_ex"].append(dict(lens=lens, kind=kind, a=rec["a"], b=b_enc, elem=elem,
                                                  model=model, observed=got))
        if bad:
            found(b_enc, exp, cls, mis, {"%s/%s" % k: v for k, v in bad.items()})
        changed = [(arr_.tolist(), orig) for arr_, orig in nd_parts if arr_.tolist() != orig]
        if changed:
            found(b_enc, exp, "reads/index-operand-modified", 0,
                  {"flat+ndarray-lengths/scalar": ("index-array-modified", {"now": changed[0][0], "was": changed[0][1]})})
    # reads must not have changed the arrays
    for (form, elem), (arr, okc) in arrs.items():
        if okc and [decode(r, elem) for r in arr] != [list(range(10 * r, 10 * r + l)) for r, l in enumerate(lens)]:
            found({"i": 0}, {"unchanged": 1}, "reads/array-modified", 0,
                  {"%s/%s" % (form, elem): ("array-modified", {})})
            _cache.pop(tuple(lens), None)
    return out


def keys_for(cls, mis, bad, ran):
    """Classify the mismatching variants of one case: {key: (variants, observed)}.
    A key is call site / index class / outcome, with a qualifier when only some
    of the construction forms that were exercised, or only vector elements, are
    affected."""
    res = {}
    nforms = {e: len([v for v in ran if v.endswith("/" + e)]) for e in ELEMS}
    by_elem = {e: {v: o for v, o in bad.items() if v.endswith("/" + e)} for e in ELEMS}
    sc = by_elem["scalar"]
    sc_sig = None
    if sc:
        for oc in sorted({o[0] for o in sc.values()}):
            vs = sorted(v for v, o in sc.items() if o[0] == oc)
            qual = "" if len(vs) == nforms["scalar"] else "/only:" + ",".join(v.split("/")[0] for v in vs)
            res["getitem/%s/%s%s" % (cls, oc, qual)] = (vs, sc[vs[0]][1])
        sc_sig = {v.split("/")[0]: o[0] for v, o in sc.items()}
    vc = by_elem["vec2"]
    vc_sig = {v.split("/")[0]: o[0] for v, o in vc.items()}
    if vc and vc_sig != sc_sig:
        for oc in sorted({o[0] for o in vc.values()}):
            vs = sorted(v for v, o in vc.items() if o[0] == oc and (sc_sig or {}).get(v.split("/")[0]) != oc)
            if not vs:
                continue
            qual = "" if len(vs) == nforms["vec2"] else "/only:" + ",".join(v.split("/")[0] for v in vs)
            if mis and oc in ("wrong-data", "wrong-container"):
                k = "getitem/(S|L,S)/vector-elements/equal-result-lengths/misshaped-rows%s" % qual
            else:
                k = "getitem/%s/vector-elements/%s%s" % (cls, oc, qual)
            res[k] = (vs, vc[vs[0]][1])
    return res


# --------------------------------------------------------------------------
# attributes

def check_attrs(rec):
    """expected attributes of a shape (from TLC) against every constructed form"""
    lens, edim, exp = rec["lens"], rec["edim"], rec["attr"]
    elem = "scalar" if edim == 0 else "vec2"
    bad = []
    rows = _rows(lens, elem)
    for form in FORMS:
        try:
            a = build(lens, form, elem)
        except Exception as ex:
            bad.append((form, elem, "construct", "raised %s: %s" % (type(ex).__name__, ex), None))
            continue

        def cmp(name, f, want):
            try:
                got = f()
            except Exception as ex:
                got = "raised %s: %s" % (type(ex).__name__, ex)
            if got != want:
                bad.append((form, elem, name, got, want))
        cmp("len", lambda: len(a), exp["nrows"])
        cmp("lengths", lambda: [int(v) for v in a.lengths], exp["lengths"])
        cmp("starts", lambda: [int(v) for v in a.starts], exp["starts"])
        cmp("shape", lambda: [NONE if v is None else int(v) for v in a.shape], exp["shape"])
        cmp("size", lambda: int(a.size), exp["size"])
        cmp("flatten", lambda: decode(a.flatten() if edim == 0 else np.asarray(a.flatten()).reshape(-1, 2), elem),
            exp["flatten"])
        cmp("iteration", lambda: [decode(r, elem) for r in a], exp["iter"])
        cmp("dtype", lambda: str(a.dtype), str(np.concatenate(rows).dtype))
        cmp("flatten-shape", lambda: list(a.flatten().shape), [exp["size"]])
    # floats: dtype attribute only
    from enspara import ra
    fa = ra.RaggedArray([r.astype(float) for r in rows])
    if str(fa.dtype) != "float64":
        bad.append(("nested-arrays", elem, "dtype-float", str(fa.dtype), "float64"))
    return dict(lens=lens, edim=edim, bad=bad, equal=len(set(lens)) == 1)


# --------------------------------------------------------------------------

def _consts(sc, shard_n, shard_k, emit, seed):
    d = {k: str(v) for k, v in sc.items()}
    if sc.get("SampleK") is None:
        d["SampleK"] = str(seed % int(sc["SampleN"]))
    d["ShardN"], d["ShardK"] = str(shard_n), str(shard_k)
    d["Emit"] = "TRUE" if emit else "FALSE"
    d["Patched"] = PATCHED
    return d


def run(ctx):
    import time
    tier = SCOPES[ctx.tier]
    ctx.rule = ("TLC enumerates every shape (<=MaxRows rows of length 1..MaxLen) x index expression of the grammar "
                "(int, slice with bounds in -Bound..Bound or None and steps None/1/2/-1/-2, list of length <=MaxList, "
                "the 8 pairs, ragged boolean masks); each case is replayed on 6 constructed arrays (3 construction "
                "forms x scalar/2-vector elements); a case is non-trivial when the definition yields at least one "
                "element; distinct by (shape, index)")
    ctx.assumptions += ["stored rows are non-empty (the library's input domain); results may have empty rows",
                        "int64 element data (float64 for the dtype attribute); list indices given as Python lists",
                        "pair (int, list) is outside the claimed grammar and not exercised",
                        "a column read ra[a:b, j] may come back as a 1-d array or as rows of length one"]
    b = core.build_repo()
    core.activate(b)
    d = core.spec_tmp(SPEC_DIR)
    # modest heaps: up to 14 JVMs run at once and the box is shared
    gc = ("-XX:ParallelGCThreads=2", "-Xmx1500m")
    gc_mc = ("-XX:ParallelGCThreads=2", "-Xmx3g")

    other, emit = [], []
    other.append(("selftest", selftest(ctx, d, run=False)))
    # attributes (all shapes of the largest emission scope)
    big = max((sc for sc, _ in tier["emit"]), key=lambda s: (s["MaxRows"], s["MaxLen"]))
    core.write_cfg(os.path.join(d, "attr.cfg"), init="InitAttr", constants=_consts(big, 1, 0, True, ctx.seed),
                   invariants=["AttrInv"])
    other.append(("attr", dict(module="RaggedRead", cfg="attr.cfg", cwd=d, label="attributes %s" % big, workers=1,
                               timeout=900, java_opts=gc)))
    sampled = []
    for si, (sc, nshard) in enumerate(tier["emit"]):
        if nshard is None:
            # larger shapes: one seeded shard out of 24 (a deterministic sample of the shapes)
            total, picks = 24, [ctx.seed % 24]
            sampled.append("shapes <=%dx%d: shard %d of %d" % (sc["MaxRows"], sc["MaxLen"], picks[0], total))
        else:
            total, picks = nshard, list(range(nshard))
        if sc["SampleN"] != 1:
            sampled.append("full products (S,S)/(S,L)/(L,S) thinned to 1/%d (seeded residue)" % sc["SampleN"])
        if sc["Pairwise"] == "TRUE":
            sampled.append("two-slot products (S,S) (S,L) (L,S) (I,S) (L,L) taken as every x representative "
                           "(10 slices, 8 lists, 3 ints, 5 pairs) in both directions, not every x every")
        for k in picks:
            name = "emit%d_%d.cfg" % (si, k)
            core.write_cfg(os.path.join(d, name), constants=_consts(sc, total, k, True, ctx.seed),
                           invariants=["EmitInv"])
            emit.append(dict(module="RaggedRead", cfg=name, cwd=d, label="emit %s shard %d/%d" % (sc, k, total),
                             workers=1, timeout=2400, java_opts=gc))
    for mi, (sc, total, npick) in enumerate(tier["mc"]):
        picks = [(ctx.seed + j) % total for j in range(npick)]
        if npick < total:
            sampled.append("step machine on shape shards %s of %d (emission + design-level ReadEq cover all)"
                           % (picks, total))
        for k in picks:
            name = "mc%d_%d.cfg" % (mi, k)
            core.write_cfg(os.path.join(d, name), constants=_consts(sc, total, k, False, ctx.seed),
                           invariants=MC_INVS)
            other.append(("mc", dict(module="RaggedRead", cfg=name, cwd=d,
                                     label="step machine %s shard %d/%d" % (sc, k, total),
                                     workers=3, coverage=True, timeout=2400, java_opts=gc_mc)))
    ctx.exhaustive = not [s_ for s_ in sampled if "thinned" in s_ or "shard" in s_]
    ctx.notes["scope_reductions"] = sorted(set(sampled))
    ctx.notes["transcription"] = "ra.py with the proposed repairs" if PATCHED == "TRUE" else "pinned ra.py"

    found = collections.OrderedDict()     # key -> [count, examples]

    def report(key, example):
        e = found.setdefault(key, [0, []])
        e[0] += 1
        if len(e[1]) < 3:
            e[1].append(example)

    st = dict(ncase=0, nev=0, nfid=0, nskip=0, fid_ex=[], percls=collections.Counter(), badcls=collections.Counter())

    def process_emit(r):
        lines = [p for t, p in r.prints if t == "CASE"]
        r.prints = None
        r.stdout = None
        if not lines:
            if r.distinct == 0:      # a shape shard without shapes
                return
            raise core.MachineryError("an emitting run printed no CASE line")
        lines.sort(key=lambda rec: rec["lens"])
        for rec, res in zip(lines, core.pmap(replay_batch, lines, chunk=40)):
            st["ncase"] += res["n"]
            st["nev"] += res["evals"]
            st["nfid"] += res["fid"]
            st["nskip"] += res["skipped"]
            if len(st["fid_ex"]) < 5:
                st["fid_ex"] += res["fid_ex"]
            ctx.nontrivial.update(res["nontriv"])
            ctx.traces += res["n"]
            st["percls"].update(res["percls"])
            st["badcls"].update(res["badcls"])
            if res["sample"] and len(ctx.samples) < 5:
                ctx.samples.append(res["sample"])
            for df in res["design_false"]:
                ctx.violation(dict(kind="model", how="RaggedRead!EmitCase: design-level ReadEq is FALSE: the "
                                   "transcribed arithmetic and the definition (dis)agree outside the stated classes",
                                   case=df), key="model/RaggedRead/DesignReadEq/%s" % df["cls"])
            for key, (n, ex) in res["keys"].items():
                e = found.setdefault(key, [0, []])
                e[0] += n
                if len(e[1]) < 3:
                    e[1].append(ex)

    # TLC in waves (memory: an emitting run's output is parsed, replayed and dropped before the next wave)
    t_tlc = t_rep = 0.0
    wave_size = 12
    first = True
    other_res = []
    while emit or first:
        n_emit = max(0, wave_size - (len(other) if first else 0))
        wave = ([j for _, j in other] if first else []) + emit[:n_emit]
        emit = emit[n_emit:]
        t0 = time.time()
        results = ctx.tlc_parallel(wave, max_par=14)
        t_tlc += time.time() - t0
        t0 = time.time()
        if first:
            other_res = list(zip([k for k, _ in other], results[:len(other)]))
            results = results[len(other):]
            for r in other_res:
                if r[0] != "attr":
                    r[1].stdout = None
            first = False
        for r in results:
            process_emit(r)
        del results
        t_rep += time.time() - t0
    ctx.notes["wall_tlc_phases_s"] = round(t_tlc, 1)
    ctx.notes["wall_replay_phases_s"] = round(t_rep, 1)

    # --- self-test
    selftest_check(ctx, next(r for k, r in other_res if k == "selftest"))

    # --- vacuity of the step machine
    cov = collections.Counter()
    for k, r in other_res:
        if k == "mc":
            cov.update(r.coverage)
    for act in ("Choose", "Dispatch", "SliceToList", "Iis", "Convert", "GatherStep", "WrapStep"):
        if cov.get(act, 0) == 0:
            raise core.MachineryError("step machine: action %s never fired (coverage %s)" % (act, dict(cov)))
    ctx.notes["action_counts"] = dict(cov)

    # --- attributes
    attrs = [p for t, p in next(r for k, r in other_res if k == "attr").prints if t == "ATTR"]
    if not attrs:
        raise core.MachineryError("no ATTR lines emitted")
    attr_bad = collections.defaultdict(list)      # (attribute, shape) -> failing (form, elem, got, want, equal)
    for res in core.pmap(check_attrs, attrs, chunk=8):
        ctx.case(("attr", tuple(res["lens"]), res["edim"]))
        ctx.traces += 1
        for form, elem, name, got, want in res["bad"]:
            attr_bad[(name, tuple(res["lens"]))].append((form, elem, got, want, res["equal"]))
    for (name, lens), fails in sorted(attr_bad.items()):
        everywhere = len({(f, e) for f, e, _, _, _ in fails}) == len(FORMS) * len(ELEMS)
        for form, elem, got, want, equal in (fails[:1] if everywhere else fails):
            key = "attr/%s" % name if everywhere else \
                "attr/%s/%s/%s%s" % (name, form, "vector-elements" if elem == "vec2" else "scalar-elements",
                                     "/equal-row-lengths" if equal else "")
            report(key, dict(kind="attribute", lens=list(lens), form=form, elem=elem, attribute=name,
                             observed=got, expected=want))

    if st["ncase"] == 0:
        raise core.MachineryError("no case was emitted")
    ctx.evaluations += st["ncase"]
    ctx.notes["cases"] = st["ncase"]
    ctx.notes["reads_evaluated"] = st["nev"]
    ctx.notes["reads_skipped_source_array_misconstructed"] = st["nskip"]
    ctx.notes["cases_per_class"] = dict(st["percls"])
    ctx.notes["mismatching_cases_per_class"] = dict(st["badcls"])
    ctx.notes["transcription_vs_real_disagreements"] = {"n": st["nfid"], "examples": st["fid_ex"]}
    if ctx.tier == "thorough":
        trace_validate(ctx, b, d, report)
    for key, (n, exs) in sorted(found.items()):
        rec = dict(exs[0])
        rec["n_cases"] = n
        rec["more_examples"] = exs[1:]
        ctx.violation(rec, key=key)
    ctx.notes["finding_keys"] = {k: v[0] for k, v in found.items()}
    import resource
    ctx.notes["cpu_s"] = {"driver_process": round(sum(resource.getrusage(resource.RUSAGE_SELF)[:2]), 1),
                          "tlc_and_replay_children": round(sum(resource.getrusage(resource.RUSAGE_CHILDREN)[:2]), 1)}


def trace_validate(ctx, build_dir, d, report):
    """Binding B (thorough): the reads performed by enspara/test/test_ra.py,
    recorded through harness/c05_trace_plugin.py, are judged by TLC
    (specs/ragged/Trace_RaggedRead.tla: observed = Get(rows, ix))."""
    import subprocess
    tmp = core.scratch("ev_c05tr_")
    raw = os.path.join(tmp, "reads.ndjson")
    env = dict(os.environ)
    env["C05_TRACE_OUT"] = raw
    env["PYTHONPATH"] = os.pathsep.join([os.path.join(core.VERIF, "harness", "fakempi"), build_dir, core.VERIF])
    env["OMP_NUM_THREADS"] = "1"
    p = subprocess.run([core.PY, "-m", "pytest", "-q", "-x", "-p", "no:cacheprovider", "-p", "harness.c05_trace_plugin",
                        os.path.join(build_dir, "enspara", "test", "test_ra.py")],
                       cwd=build_dir, env=env, stdout=subprocess.PIPE, stderr=subprocess.STDOUT, text=True, timeout=1200)
    if not os.path.exists(raw):
        raise core.MachineryError("test_ra.py under the trace plugin produced no trace:\n" + p.stdout[-2000:])
    recs = [json.loads(l) for l in open(raw)]
    summary = recs.pop() if recs and "summary" in recs[-1] else {}
    if not recs:
        raise core.MachineryError("no read recorded from test_ra.py:\n" + p.stdout[-2000:])
    # identical reads are judged once
    uniq, order = {}, []
    for r in recs:
        k = json.dumps([r["rows"], r["ix"], r["res"]])
        if k not in uniq:
            uniq[k] = r
            order.append(r)
    tf = os.path.join(tmp, "traces.ndjson")
    with open(tf, "w") as fh:
        for r in order:
            fh.write(json.dumps({"rows": r["rows"], "ix": r["ix"], "res": r["res"]}) + "\n")
    sc = dict(MaxRows=1, MaxLen=1, Bound=1, MaxList=0, MaskMax=0, Pairwise="TRUE", SampleN=1, SampleK=0)
    core.write_cfg(os.path.join(d, "trace.cfg"), init="TraceInit", next_="TraceNext",
                   constants=_consts(sc, 1, 0, False, 0), invariants=["Verdict"])
    r = ctx.tlc("Trace_RaggedRead", "trace.cfg", d, label="trace validation of %d distinct reads of test_ra.py" % len(order),
                workers=1, timeout=900, env={"TRACE_FILE": tf}, java_opts=("-XX:ParallelGCThreads=2",))
    verdicts = {v[0]: v[1:] for t, v in r.prints if t == "TV"}
    acc = rej = 0
    for tid, rec in enumerate(order, 1):
        if tid not in verdicts:
            raise core.MachineryError("no verdict for recorded read %d: %r" % (tid, rec))
        verdict, cls, exp = verdicts[tid][0], verdicts[tid][1], verdicts[tid][2]
        ctx.traces += 1
        ctx.case(("trace", tid))
        if verdict == "ACCEPT":
            acc += 1
            continue
        if verdict == "MALFORMED":
            continue
        rej += 1
        exp = json.loads(exp)
        report("getitem/%s/%s" % (cls, outcome(exp, rec["res"])),
               dict(kind="trace", source="enspara/test/test_ra.py::%s" % rec["test"], rows=rec["rows"], ix=rec["ix"],
                    index_class=cls, expected=exp, observed=rec["res"],
                    how="read recorded from the test run, judged by Trace_RaggedRead!Verdict"))
    ctx.notes["trace_validation_test_ra"] = dict(reads_recorded=len(recs), distinct=len(order), accepted=acc, rejected=rej,
                                                 not_encodable=summary.get("skipped"),
                                                 pytest_tail=p.stdout.strip().splitlines()[-1:] )


def replay(ctx, path):
    rec = json.load(open(path))
    b = core.build_repo()
    core.activate(b)
    ctx.case(("replay",), sample={k: rec.get(k) for k in ("lens", "a", "b", "expected")})
    ctx.nontrivial.add(("replay2",))
    if rec.get("kind") == "attribute":
        # expected attribute values were computed by TLC and are stored in the record
        a = build(rec["lens"], rec["form"], rec["elem"])
        name = rec["attribute"]
        elem = rec["elem"]
        get = {"len": lambda: len(a), "lengths": lambda: [int(v) for v in a.lengths],
               "starts": lambda: [int(v) for v in a.starts],
               "shape": lambda: [NONE if v is None else int(v) for v in a.shape], "size": lambda: int(a.size),
               "flatten": lambda: decode(a.flatten() if elem == "scalar" else np.asarray(a.flatten()).reshape(-1, 2), elem),
               "iteration": lambda: [decode(r, elem) for r in a], "dtype": lambda: str(a.dtype),
               "flatten-shape": lambda: list(a.flatten().shape)}[name]
        try:
            got = get()
        except Exception as ex:
            got = "raised %s: %s" % (type(ex).__name__, ex)
        if got != rec["expected"]:
            ctx.violation(dict(rec, observed=got), key=rec["key"])
        return
    if rec.get("kind") == "trace":
        # a read recorded from test_ra.py; the expected value was computed by TLC and is stored in the record
        from enspara import ra
        arr = ra.RaggedArray([np.array(r) for r in rec["rows"]])
        enc = rec["ix"]
        if "m" in enc:
            ix = ra.RaggedArray([list(r) for r in enc["m"]])
        elif "r" in enc:
            ix = (py_index(enc["r"]), py_index(enc["c"]))
        else:
            ix = py_index(enc)
        try:
            res = arr[ix]
            if isinstance(res, ra.RaggedArray):
                got = {"r": [np.asarray(r).tolist() for r in res]}
            elif isinstance(res, np.ndarray) and res.ndim > 0:
                got = {"f": res.tolist()}
            else:
                got = {"v": np.asarray(res).item()}
        except Exception as ex:
            got = {"e": type(ex).__name__}
        if not same(rec["expected"], got):
            ctx.violation(dict(rec, observed=got), key=rec["key"])
        return
    if rec.get("kind") != "replay":
        print("record of kind %r: re-run ./check C05 instead" % rec.get("kind"))
        return
    line = dict(lens=rec["lens"], kind=rec["index_kind"], a=rec["a"],
                res=[[rec["b"], rec["expected"], rec["index_class"], 0, rec.get("mis", 0), True]])
    res = replay_batch(line)
    for key, (n, ex) in res["keys"].items():
        ctx.violation(dict(rec, observed=ex["observed"], variants=ex["variants"]), key=key)
