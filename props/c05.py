"""C05 -- reading a ragged array equals reading the list of its rows.

Specs: specs/ragged/Ragged.tla (abstract rows, Partition/Flatten, attributes),
specs/ragged/RaggedRead.tla (index grammar, Get = list-of-rows definition, the
pinned flat-offset arithmetic transcribed, index classes, step machine) and
specs/ragged/PySliceSelfTest.tla (PySlice against CPython).

TLC (a) model-checks the step machine of RaggedArray.__getitem__ against the
definition (ReadEq outside the departing classes, NoNeighbourLeak, StepsAgree),
(b) emits every (shape, index expression) of the scope with Get(rows, ix), the
index class, the transcription's result and the design-level verdict, (c) emits
the attributes of every shape.  This driver builds the real RaggedArray in
six forms (nested arrays / flat + list lengths / flat + ndarray lengths,
scalar and 2-vector elements; nested Python lists in the attribute check), evaluates ra[ix], projects the
result (RaggedArray -> rows, ndarray -> flat, numpy scalar -> scalar, exception
-> Err) and compares it with the emitted Get.  Nothing is computed about
slices or offsets in Python: expected values come from TLC.

Two families of shapes: the exhaustive small one (<= 3-4 rows of length <= 3-4)
and the long one (RaggedRead.tla Part 6: rows / row counts beyond the range of
int8, uint8, int16, with index expressions around the ends of the axes and the
limits of those types).  The index operands are handed over in every integer
form a caller may hold them in (Python int, numpy scalars of every integer
type, 0-d arrays, lists, tuples, lists of numpy scalars, ndarrays of every
integer dtype, slices with numpy-scalar bounds) wherever the value fits the
type; the forms rotate deterministically over cases and construction variants
(the long family sweeps every form of each slot for every case).  The expected
result does not depend on the form.  TLC also emits, per case, for which index
dtypes the dtype-aware transcription of _convert_from_2d leaves the definition
(`hazards`); these bits only name the cases that wait behind the gates below.
"""
import collections
import json
import os
import zlib

import numpy as np

from harness import core

SPEC_DIR = os.path.join(core.SPECS, "ragged")
NONE = 1000000
VEC = 1000          # a 2-vector element is (v, v + VEC)

# Which arithmetic Part 3 of RaggedRead.tla transcribes: the pinned tree (FALSE) or ra.py with the proposed
# repairs (TRUE).  Only the design-level statements and the fidelity note depend on it; the verdict on the
# code is always "observed = Get".  Flip to "TRUE" once the repairs are committed to /repo.
PATCHED = os.environ.get("VERIF_C05_PATCHED", "TRUE").upper()   # /repo contains the repairs (fix: commits f6cabcf..d7b8f47)

# ---- gates: genuine defects of the current tree that wait for a repair in /repo --------------------------------------
# Each gate removes ONLY the (case, index form) combinations that fail because of the named defect (they are counted in
# the evidence, notes["gated_index_forms"]); with the gate's flag on they are replayed like everything else.
#
# _convert_from_2d / _handle_negative_indices resolve a negative row / column by adding the axis length IN THE DTYPE OF
# THE CALLER'S INDEX: a negative int8 (int16) column on a row longer than 127 (32767) wraps -- a[0, np.int8(-1)] on a
# row of 300 returns column 43 --, a negative int8 row on an array of more than 127 rows raises OverflowError.  Affects
# the forms without a slice: (I,I), (L,L), (L,I), (I,L).  Which cases: RaggedRead!Hazards (bits 1-4).
NARROW_INDEX_DEFECT_REPAIRED = os.environ.get("C05_NARROW", "1") == "1"      # repaired in /repo d3481c4
# the same arithmetic with a uint64 column index: starts[rows] (int64) + columns (uint64) is a float64 array, the read
# raises IndexError: a[0, np.uint64(2)], a[[0, 2], np.array([1, 2], dtype=np.uint64)].  RaggedRead!Hazards bit 5.
UINT64_INDEX_DEFECT_REPAIRED = os.environ.get("C05_UINT64", "1") == "1"      # repaired in /repo d3481c4
# a 0-d integer array where a single integer is meant (rows[np.array(1)] is row 1 for a list of rows and for numpy):
# a[np.array(1)] is a one-row RaggedArray instead of the row, a[np.array(1), 2] / a[1, np.array(2)] an array of one
# element instead of the element, a[np.array(0), 1:3] raises TypeError.  As the column of (S,I) and (L,I) a 0-d array
# behaves as the integer and is exercised unconditionally.
ZERO_D_INDEX_DEFECT_REPAIRED = os.environ.get("C05_ZEROD", "1") == "1"       # repaired in /repo aeb0d66

MC_INVS = ["TypeOK", "Representation", "StepsAgree", "NoNeighbourLeakImpl", "ElementOutsideRaises",
           "ReadEq", "MisshapedOnlyVectorEqualLengths", "DepartAlwaysIsTight"]

FORMS = ["nested-arrays", "nested-lists", "flat+list-lengths", "flat+ndarray-lengths", "flat+narrow-lengths"]
ELEMS = ["scalar", "vec2"]
# index replays: nested lists and nested arrays take the same constructor path (np.concatenate), so the
# list form is compared in the attribute check only
RFORMS = ["nested-arrays", "flat+list-lengths", "flat+ndarray-lengths"]
# ... and an array that GREW to the shape: built from its first row, read (offsets, an element, an iteration), then
# extended by append -- whatever a read computed and kept must not outlive the append (scalar elements only)
# ... and flat data with the lengths in the narrowest integer type that holds each of them (their running sum need not fit)
VARIANTS = [(f, e) for e in ELEMS for f in RFORMS] + [("grown-by-append", "scalar"), ("flat+narrow-lengths", "scalar")]

# scope per tier.  emit: list of (constants, number of shape shards); mc: the same for the step machine
# long family (RaggedRead.tla Part 6): positions in LongCatalogue; one TLC job per group of index kinds
LONG_KIND_GROUPS = [["SS"], ["IS"], ["SL"], ["SI", "LL"], ["LS", "M"], ["I", "S", "L", "II", "IL", "LI"]]
SCOPES = {
    "quick": dict(
        emit=[(dict(MaxRows=3, MaxLen=3, Bound=4, MaxList=2, MaskMax=4, Pairwise="TRUE", SampleN=1, SampleK=0), 9)],
        mc=[(dict(MaxRows=3, MaxLen=3, Bound=4, MaxList=2, MaskMax=4, Pairwise="TRUE", SampleN=1, SampleK=0), 9, 1)],
        long=dict(shapes=[1, 2, 4], LongMaxSel=8, LongMaxTot=1200, sweeps=1),
        selftest=dict(MaxN=5, B=7)),
    "thorough": dict(
        emit=[(dict(MaxRows=3, MaxLen=3, Bound=4, MaxList=2, MaskMax=6, Pairwise="FALSE", SampleN=8, SampleK=None), 39),
              (dict(MaxRows=4, MaxLen=4, Bound=5, MaxList=2, MaskMax=4, Pairwise="TRUE", SampleN=1, SampleK=0), None)],
        mc=[(dict(MaxRows=3, MaxLen=3, Bound=4, MaxList=2, MaskMax=4, Pairwise="TRUE", SampleN=1, SampleK=0), 4, 4)],
        long=dict(shapes=[1, 2, 3, 4, 5, 6], LongMaxSel=8, LongMaxTot=1200, sweeps=1),
        selftest=dict(MaxN=7, B=9)),
}


# --------------------------------------------------------------------------
# PySlice self-test (TLC table vs CPython)

def _unnone(v):
    return None if v == NONE else v


def selftest(ctx, d=None, run=True):
    """TLC prints Norm/SliceIdx/NormIdx tables; compare with slice.indices(),
    list(range(n))[slice] and integer indexing of CPython.  Returns the TLC job
    (run=False) or checks the result r (selftest_check)."""
    sc = SCOPES[ctx.tier]["selftest"]
    d = d or core.spec_tmp(SPEC_DIR)
    cfg = core.write_cfg(os.path.join(d, "selftest.cfg"), constants={k: str(v) for k, v in sc.items()},
                         invariants=["Consistent", "EmitInv"])
    job = dict(module="PySliceSelfTest", cfg=os.path.basename(cfg), cwd=d, label="PySlice self-test %s" % sc,
               workers=1, timeout=300, java_opts=("-XX:ParallelGCThreads=2",))
    if not run:
        return job
    r = ctx.tlc(**job)
    return selftest_check(ctx, r)


def selftest_check(ctx, r):
    n_cmp = 0
    diffs = []
    tables = [p for t, p in r.prints if t == "SLICE"]
    if not tables:
        raise core.MachineryError("PySlice self-test: no SLICE lines")
    for rec in tables:
        n, step, B = rec["n"], _unnone(rec["step"]), rec["B"]
        bnds = list(range(-B, B + 1)) + [None]
        base = list(range(n))
        for i, a in enumerate(bnds):
            for j, b in enumerate(bnds):
                norm, idx = rec["table"][i][j]
                sl = slice(a, b, step)
                n_cmp += 1
                if tuple(norm) != sl.indices(n) or idx != base[sl] or idx != list(range(*sl.indices(n))):
                    diffs.append(dict(n=n, slice=[a, b, step], tla_norm=norm, py_norm=list(sl.indices(n)),
                                      tla_idx=idx, py_idx=base[sl]))
        for k, i in enumerate(range(-B, B + 1)):
            n_cmp += 1
            try:
                want = base[i]
            except IndexError:
                want = -1
            if rec["normidx"][k] != want:
                diffs.append(dict(n=n, index=i, tla=rec["normidx"][k], py=want))
    ctx.notes["pyslice_selftest"] = {"compared": n_cmp, "differences": len(diffs)}
    if diffs:
        raise core.MachineryError("specs/common/PySlice.tla disagrees with CPython on %d of %d cases, e.g. %r"
                                  % (len(diffs), n_cmp, diffs[:3]))
    return n_cmp


# --------------------------------------------------------------------------
# building arrays, indices; projecting results

def _stride(lens):
    """RaggedRead!Stride: cell ids are stride * row + column, the stride wider than the longest row"""
    return 10 if max(lens) <= 10 else 100000


def _rows(lens, elem):
    """the per-row numpy arrays for a shape; cell (r, c) holds stride * r + c (RaggedRead!Cell)"""
    rows = []
    st = _stride(lens)
    for r, l in enumerate(lens):
        ids = np.arange(st * r, st * r + l, dtype=np.int64)
        rows.append(ids if elem == "scalar" else np.stack([ids, ids + VEC], axis=1))
    return rows


def build(lens, form, elem):
    from enspara import ra
    rows = _rows(lens, elem)
    if form == "nested-arrays":
        return ra.RaggedArray([r.copy() for r in rows])
    if form == "nested-lists":
        return ra.RaggedArray([r.tolist() for r in rows])
    if form == "grown-by-append":
        a = ra.RaggedArray([rows[0].copy()])
        _ = (a.starts, a.lengths, list(a), a.flatten())
        if len(rows[0]):
            _ = (a[0, 0], a[-1, -1], a[:, 0])
        if len(rows) > 1:
            a.append([r.copy() for r in rows[1:]])
        return a
    flat = np.concatenate(rows)
    if form == "flat+list-lengths":
        return ra.RaggedArray(flat, lengths=list(lens))
    if form == "flat+narrow-lengths":
        return ra.RaggedArray(flat, lengths=np.array(lens, dtype=np.min_scalar_type(max(list(lens) + [1]))))
    return ra.RaggedArray(flat, lengths=np.array(lens, dtype=int))


def decode(x, elem):
    """element(s) -> cell id(s); anything that is not an embedded cell id is kept verbatim as a string"""
    a = np.asarray(x)
    if a.dtype == object:
        try:
            a = np.array(a.tolist())
        except Exception:
            return "undecodable:%r" % (x,)
    if elem == "scalar":
        if a.ndim == 0:
            return int(a) if float(a) == int(a) else "noninteger:%r" % (a,)
        if a.ndim == 1:
            return [int(v) for v in a.tolist()]
        return "shape%s:%s" % (a.shape, a.tolist())
    # vec2: last axis must be the pair (v, v + VEC)
    if a.ndim == 1 and a.shape[0] == 0:
        return []
    if a.ndim == 0 or a.shape[-1] != 2:
        return "shape%s:%s" % (a.shape, a.tolist())
    if a.ndim == 1:
        return int(a[0]) if a[1] == a[0] + VEC else "notanelement:%s" % a.tolist()
    if a.ndim == 2:
        if np.all(a[:, 1] == a[:, 0] + VEC):
            return [int(v) for v in a[:, 0].tolist()]
        return "notelements:%s" % a.tolist()
    return "shape%s:%s" % (a.shape, a.tolist())


def project(res, elem):
    """RaggedArray -> {'r': rows}, ndarray -> {'f': flat} (or {'v': element}), numpy scalar -> {'v': v}"""
    from enspara import ra
    if isinstance(res, ra.RaggedArray):
        rows = [decode(row, elem) for row in res]          # iteration, as for a list of rows
        out = {"r": rows}
        # the result must be coherent with its own lengths / flat data
        try:
            ls = [int(v) for v in np.asarray(res.lengths).tolist()]
            if ls != [len(r) if isinstance(r, list) else -1 for r in rows]:
                out["incoherent"] = "lengths=%s" % ls
            elif rows:
                fl = res.flatten()
                fl = decode(fl if elem == "scalar" else np.asarray(fl).reshape(-1, 2), elem)
                if fl != [v for r in rows for v in r]:
                    out["incoherent"] = "flatten=%s" % (fl,)
            # ... and keep the element type of the array it was read from (int64 here), as rows of a list would
            if "incoherent" not in out and rows and any(rows) and res.dtype != np.int64:
                out["incoherent"] = "dtype=%s" % res.dtype
        except Exception as ex:
            out["incoherent"] = "%s: %s" % (type(ex).__name__, ex)
        return out
    if isinstance(res, np.ndarray):
        if res.size and res.dtype != np.int64:
            return {"other": "ndarray of dtype %s: %r" % (res.dtype, res.tolist())}
        if elem == "scalar":
            return {"v": decode(res, elem)} if res.ndim == 0 else {"f": decode(res, elem)}
        if res.ndim == 1 and res.shape[0] == 2:
            return {"v": decode(res, elem)}
        return {"f": decode(res, elem)}
    if isinstance(res, np.generic):
        return {"v": decode(res, elem)}
    return {"other": "%s:%r" % (type(res).__name__, res)}


def py_index(enc):
    if "i" in enc:
        return enc["i"]
    if "s" in enc:
        return slice(*[_unnone(v) for v in enc["s"]])
    if "l" in enc:
        return list(enc["l"])
    raise KeyError(enc)


def same(exp, got):
    """ResEq of RaggedRead.tla on the JSON encodings"""
    if "e" in exp:
        return "e" in got
    if "c" in exp:       # column read: 1-d array or rows of length one (RaggedRead!ResEq)
        return got.get("f") == exp["c"] or (got.get("r") == [[v] for v in exp["c"]] and "incoherent" not in got)
    k = next(iter(exp))
    return k in got and got[k] == exp[k] and "incoherent" not in got


def outcome(exp, got):
    if "e" in got:
        return "raises"
    if "e" in exp:
        return "no-error"
    k = next(iter(exp))
    if k == "c":
        return "wrong-data" if ("f" in got or "r" in got) else "wrong-container"
    if k not in got:
        if k == "v" and got.get("f") == [exp["v"]]:
            return "one-element-array-instead-of-element"
        return "wrong-container"
    return "wrong-data"


# --------------------------------------------------------------------------
# the integer forms an index operand can be handed over in

U64 = -64          # RaggedRead!U64


def _int_types():
    """every numpy integer scalar type of the platform, by class (np.intp is np.int64 here, np.longlong is not)"""
    seen, out = set(), []
    for name in ("int8", "int16", "int32", "int64", "uint8", "uint16", "uint32", "uint64", "intp", "uintp",
                 "longlong", "ulonglong"):
        t = getattr(np, name)
        if t in seen:
            continue
        seen.add(t)
        ii = np.iinfo(t)
        dt = np.dtype(t)
        bits = {("i", 1): 8, ("i", 2): 16, ("u", 8): U64}.get((dt.kind, dt.itemsize), 0)
        out.append((name, t, int(ii.min), int(ii.max), bits))
    return out


INT_TYPES = _int_types()
TYPE = {n: t for n, t, _, _, _ in INT_TYPES}
BITS = {n: b for n, _, _, _, b in INT_TYPES}
PLAIN = ("py", None)          # Python int / list of Python ints / slice of Python ints (or None)


_fits_cache = {}


def _fits(vals):
    key = (min(vals), max(vals)) if vals else (0, 0)
    if key not in _fits_cache:
        _fits_cache[key] = [n for n, _, lo, hi, _ in INT_TYPES if lo <= key[0] and key[1] <= hi]
    return _fits_cache[key]


def forms_of(enc, tuple_ok, zerod_ok):
    """the forms operand `enc` can take: (container, type name).  Only representation: a value is offered in a type
    only if the type can hold it."""
    if "i" in enc:
        fit = _fits([enc["i"]])
        return [PLAIN] + [("scalar", n) for n in fit] + ([("0d", n) for n in fit] if zerod_ok else [])
    if "l" in enc:
        fit = _fits(enc["l"])
        return ([PLAIN] + ([("tuple", None)] if tuple_ok else []) + [("ndarray", n) for n in fit]
                + ([("scalars", n) for n in fit] if enc["l"] else []))
    if "s" in enc:
        vals = [v for v in enc["s"] if v != NONE]
        return [PLAIN] + ([("scalar", n) for n in _fits(vals)] if vals else [])
    raise KeyError(enc)


def make(enc, form):
    """the index object for operand `enc` in form `form`; also returns the ndarray handed over (or None) so that the
    caller can see that a read left it alone"""
    cont, ty = form
    if "i" in enc:
        v = enc["i"]
        if cont == "py":
            return v, None
        if cont == "scalar":
            return TYPE[ty](v), None
        arr = np.array(v, dtype=TYPE[ty])           # 0-d
        return arr, arr
    if "l" in enc:
        l = list(enc["l"])
        if cont == "py":
            return l, None
        if cont == "tuple":
            return tuple(l), None
        if cont == "scalars":
            return [TYPE[ty](v) for v in l], None
        arr = np.array(l, dtype=TYPE[ty])
        return arr, arr
    b = [_unnone(v) for v in enc["s"]]
    if cont == "scalar":
        b = [None if v is None else TYPE[ty](v) for v in b]
    return slice(*b), None


_names = {}


def form_name(form):
    if form not in _names:
        cont, ty = form
        _names[form] = ({"py": "python", "tuple": "tuple"}.get(cont)
                        or "%s-%s" % (ty, {"scalars": "list-of-scalars"}.get(cont, cont)))
    return _names[form]


# positions in which a 0-d array is read as the integer by the current tree (see ZERO_D_INDEX_DEFECT_REPAIRED)
ZEROD_FINE = {("SI", "c"), ("LI", "c")}
TUPLE_OK = {("LS", "r"), ("LL", "r"), ("LI", "r"), ("SL", "c"), ("LL", "c"), ("IL", "c")}
_MODE = dict(tier="quick", seed=0)      # set by run() before the workers are forked


def slot_forms(kind, slot, enc, hz, gated):
    """forms for one slot of one case, with the gated ones taken out (and counted)"""
    zerod = ZERO_D_INDEX_DEFECT_REPAIRED or (kind, slot) in ZEROD_FINE
    if "i" in enc and not zerod:
        gated["0-d array as a single integer"] = gated.get("0-d array as a single integer", 0) + len(_fits([enc["i"]]))
    out = []
    for f in forms_of(enc, (kind, slot) in TUPLE_OK, zerod):
        b = BITS.get(f[1], 0)
        if b and hz and len(kind) == 2:
            if b == U64:
                if slot == "c" and hz[4] and not UINT64_INDEX_DEFECT_REPAIRED:
                    gated["uint64 column index"] = gated.get("uint64 column index", 0) + 1
                    continue
            elif hz[{("r", 8): 0, ("r", 16): 1, ("c", 8): 2, ("c", 16): 3}[(slot, b)]] and not NARROW_INDEX_DEFECT_REPAIRED:
                k = "negative int%d %s index on an axis too long for the type" % (b, "row" if slot == "r" else "column")
                gated[k] = gated.get(k, 0) + 1
                continue
        out.append(f)
    return out


def plan(n, nvar, fr, fc, long_, sweeps, full=True):
    """which (variant, row form, column form) to evaluate for case number n: a deterministic rotation.  Small family:
    one read per construction variant, one of them with plain Python operands.  Long family: every form of each slot at
    least once (`sweeps` times with different pairings), the construction variants taking turns; `full` None: half of
    the forms (which half changes with n); `full` False: one read per construction variant."""
    lr, lc = len(fr), len(fc)
    if not long_:
        p = n % nvar
        out = []
        for vi in range(nvar):
            if vi == p or (lr == 1 and lc == 1):
                out.append((vi, 0, 0))
            else:
                h = (n * 2654435761 + vi * 40503 + 12345) & 0xffffffff
                out.append((vi, (h >> 3) % lr, (h >> 13) % lc))
        return out
    out = [(n % nvar, 0, 0)]
    m = max(lr, lc, nvar) if full else max(nvar, (max(lr, lc) + 1) // 2) if full is None else nvar
    for sw in range(sweeps):
        r0, c0 = (n * 7 + sw * 3) % lr, (n * 13 + sw * 5 + n // lr) % lc
        for j in range(m):
            out.append(((n + j + 1) % nvar, (r0 + j) % lr, (c0 + j) % lc))
    seen, uniq = set(), []
    for e in out:
        if e not in seen:
            seen.add(e)
            uniq.append(e)
    return uniq


_cache = {}


def _arrays(lens):
    """the constructed arrays of a shape (per worker process), with the
    variants whose construction already failed the attribute check left out"""
    key = tuple(lens)
    if key not in _cache:
        if len(_cache) > 64:
            _cache.clear()
        d = {}
        for form, elem in VARIANTS:
            try:
                a = build(lens, form, elem)
                okc = _intact(a, lens, elem)
            except Exception:
                a, okc = None, False
            d[(form, elem)] = (a, okc)
        _cache[key] = d
    return _cache[key]


_rows_cache = {}


def _intact(arr, lens, elem):
    """iterating over the array yields exactly the rows it was built from"""
    key = (tuple(lens), elem)
    if key not in _rows_cache:
        if len(_rows_cache) > 16:
            _rows_cache.clear()
        _rows_cache[key] = _rows(lens, elem)
    exp = _rows_cache[key]
    got = list(arr)
    return len(got) == len(exp) and all(isinstance(g, np.ndarray) and g.shape == e.shape and np.array_equal(g, e)
                                        for g, e in zip(got, exp))


def replay_batch(rec):
    """One emitted line = (shape, kind, first slot) x all second slots.  Returns
    counts and the mismatches, grouped per case."""
    from enspara import ra
    lens, kind = rec["lens"], rec["kind"]
    long_ = bool(rec.get("long"))
    arrs = _arrays(lens)
    single = kind in ("I", "S", "L", "M")
    ran = ["%s/%s" % v for v in VARIANTS if arrs[v][1]]
    out = dict(n=0, evals=0, nontriv=[], keys={}, percls={}, badcls={}, design_false=[], fid=0, fid_ex=[],
               skipped=0, sample=None, gated={}, forms={}, nlong=0)
    force = rec.get("force_forms")           # replay of a recorded violation: exactly these forms
    sweeps = SCOPES[_MODE["tier"]]["long"]["sweeps"]
    base = zlib.crc32(json.dumps([lens, kind, rec["a"]]).encode()) + _MODE["seed"] * 7919
    mask_ix = ra.RaggedArray([list(r) for r in rec["a"]["m"]]) if kind == "M" else None

    def found(b_enc, exp, cls, mis, bad, extra=None, key=None):
        out["badcls"][cls] = out["badcls"].get(cls, 0) + 1
        ks = {key: (sorted(bad), next(iter(bad.values()))[1])} if key else keys_for(cls, mis, bad, ran)
        for k_, (vs, got) in ks.items():
            e = out["keys"].setdefault(k_, [0, None])
            e[0] += 1
            if e[1] is None:
                e[1] = dict(kind="replay", lens=lens, index_kind=kind, a=rec["a"], b=b_enc, index_class=cls, mis=mis,
                            expected=exp, observed=got, variants=vs,
                            how="RaggedArray(...)[ix] vs RaggedRead!Get; a={i:int}|{s:[start,stop,step]}|"
                                "{l:list}|{m:mask}, 1000000 = None; elements are cell ids %d*row+col" % _stride(lens))
                if sum(lens) <= 40:
                    e[1]["rows"] = [r_.tolist() for r_ in _rows(lens, "scalar")]
                if long_:
                    e[1]["long"] = 1
                if extra:
                    e[1].update(extra)

    def read(variant, ix):
        arr = arrs[variant][0]
        try:
            return project(arr[ix], variant[1])
        except Exception as ex:        # the implementation's exception is an observation
            return {"e": type(ex).__name__}

    def index(b_enc, rf, cf):
        """the index expression with the operands in the given forms; the ndarrays handed over, with their content"""
        if kind == "M":
            return mask_ix, []
        a_obj, a_arr = make(rec["a"], rf)
        parts = [(a_arr, a_arr.tolist())] if a_arr is not None else []
        if single:
            return a_obj, parts
        b_obj, b_arr = make(b_enc, cf)
        if b_arr is not None:
            parts.append((b_arr, b_arr.tolist()))
        return (a_obj, b_obj), parts

    for k, case in enumerate(rec["res"]):
        b_enc, exp, cls, d0, mis, ok = case[:6]
        hz = case[6] if len(case) > 6 else None
        n = base + k
        out["n"] += 1
        out["nlong"] += long_
        out["percls"][cls] = out["percls"].get(cls, 0) + 1
        if out["sample"] is None and cls == "(*,S)/plain" and len(set(lens)) == 3:
            out["sample"] = dict(lens=lens, rows=rec["a"], cols=b_enc, expected=exp, index_class=cls)
        if not ok:
            out["design_false"].append(dict(lens=lens, kind=kind, a=rec["a"], b=b_enc, cls=cls, get=exp, impl=d0))
        if "e" not in exp and next(iter(exp.values())) not in ([], [[]]):
            out["nontriv"].append(zlib.crc32(json.dumps([lens, kind, rec["a"], b_enc]).encode()))
        if kind == "M":
            fr, fc = [PLAIN], [PLAIN]
        else:
            fr = slot_forms(kind, "r", rec["a"], hz, out["gated"])
            fc = [PLAIN] if single else slot_forms(kind, "c", b_enc, hz, out["gated"])
        if force:
            todo = [(vi, tuple(force[0]), tuple(force[1])) for vi in range(len(VARIANTS))]
        else:
            # every form of each slot where the caller's dtype reaches the arithmetic (no slice in the index); one
            # read per construction variant when there are only slices (a bound only passes through __index__);
            # otherwise half of the forms in the quick tier, all in the thorough one
            full = (False if kind in ("S", "SS") else
                    True if _MODE["tier"] == "thorough" or "S" not in kind else None)
            todo = [(vi, fr[i], fc[j]) for vi, i, j in plan(n, len(VARIANTS), fr, fc, long_, sweeps, full=full)]
        failed = []                     # (variant, row form, column form, observed)
        for vi, rf, cf in todo:
            variant = VARIANTS[vi]
            if not arrs[variant][1]:
                out["skipped"] += 1       # constructor defect, reported by the attribute check
                continue
            ix, parts = index(b_enc, rf, cf)
            got = read(variant, ix)
            out["evals"] += 1
            fk = form_name(rf) if single else form_name(rf) + "," + form_name(cf)
            out["forms"][fk] = out["forms"].get(fk, 0) + 1
            if not same(exp, got):
                failed.append((variant, rf, cf, got))
            # a read must leave the caller's index arrays as they are (numpy indexing of a list of rows never writes
            # into its index arrays)
            changed = [(arr_.tolist(), orig) for arr_, orig in parts if arr_.tolist() != orig]
            if changed:
                found(b_enc, exp, "reads/index-operand-modified", 0,
                      {"%s/%s" % variant: ("index-array-modified", {"now": changed[0][0], "was": changed[0][1]})},
                      extra=dict(index_forms=[list(rf), list(cf)]),
                      key="getitem/reads/index-operand-modified/index-array-modified")
            # fidelity of the transcription (not a verdict): flat + ndarray lengths is what it models
            if variant[0] == "flat+ndarray-lengths" and rf == PLAIN and cf == PLAIN:
                model = exp if d0 == 0 else d0
                if variant[1] == "vec2" and mis:
                    agree = not same(exp, got)          # model says: misshaped, i.e. not the definition
                elif "e" in model:
                    agree = "e" in got and (model["e"] == "" or model["e"].startswith(got["e"]))
                elif "c" in model:
                    agree = same(model, got)
                else:
                    k_ = next(iter(model))
                    agree = got.get(k_) == model[k_]
                if not agree:
                    out["fid"] += 1
                    if len(out["fid_ex"]) < 2:
                        out["fid_ex"].append(dict(lens=lens, kind=kind, a=rec["a"], b=b_enc, elem=variant[1],
                                                  model=model, observed=got))
        if failed:
            # what does the case do with plain Python operands, on every construction variant?  Failures there are
            # failures of the case (keys as ever); a variant that is right with plain operands and wrong with another
            # form of the same numbers fails because of the form, and the key says which slot and which form
            bad, plain_ok = {}, set()
            for variant in VARIANTS:
                if arrs[variant][1]:
                    got = read(variant, index(b_enc, PLAIN, PLAIN)[0])
                    out["evals"] += 1
                    if same(exp, got):
                        plain_ok.add(variant)
                    else:
                        bad["%s/%s" % variant] = (outcome(exp, got), got)
            if bad:
                found(b_enc, exp, cls, mis, bad)
            for variant, rf, cf, got in failed:
                if variant not in plain_ok or (rf == PLAIN and cf == PLAIN):
                    continue
                if single or cf == PLAIN:
                    slots = "row:" + form_name(rf)
                elif rf == PLAIN:
                    slots = "col:" + form_name(cf)
                else:
                    r_alone = not same(exp, read(variant, index(b_enc, rf, PLAIN)[0]))
                    c_alone = not same(exp, read(variant, index(b_enc, PLAIN, cf)[0]))
                    out["evals"] += 2
                    slots = ("row:" + form_name(rf) if r_alone and not c_alone else
                             "col:" + form_name(cf) if c_alone and not r_alone else
                             "row:%s+col:%s" % (form_name(rf), form_name(cf)))
                found(b_enc, exp, cls, mis, {"%s/%s" % variant: (outcome(exp, got), got)},
                      extra=dict(index_forms=[list(rf), list(cf)]),
                      key="getitem/%s/%s/index-form/%s" % (cls, outcome(exp, got), slots))
    # an array whose construction does not even iterate as the rows it was built from (the attribute check reports
    # this for the enumerated shapes; the long shapes only come by here)
    if long_:
        for (form, elem), (arr, okc) in arrs.items():
            if not okc:
                got = None
                try:
                    got = [len(r) for r in arr] if arr is not None else "constructor raised"
                except Exception as ex:
                    got = "iteration raised %s" % type(ex).__name__
                found({"i": 0}, {"rows": "as built"}, "construct/long-shape", 0,
                      {"%s/%s" % (form, elem): ("rows-differ", {"row_lengths_by_iteration": got if not isinstance(got, list) else got[:12],
                                                               "lengths_given": list(lens)[:12]})},
                      key="construct/%s/long-shape/rows-differ" % form)
    # reads must not have changed the arrays
    for (form, elem), (arr, okc) in arrs.items():
        if okc and not _intact(arr, lens, elem):
            found({"i": 0}, {"unchanged": 1}, "reads/array-modified", 0,
                  {"%s/%s" % (form, elem): ("array-modified", {})})
            _cache.pop(tuple(lens), None)
    return out


def keys_for(cls, mis, bad, ran):
    """Classify the mismatching variants of one case: {key: (variants, observed)}.
    A key is call site / index class / outcome, with a qualifier when only some
    of the construction forms that were exercised, or only vector elements, are
    affected."""
    res = {}
    nforms = {e: len([v for v in ran if v.endswith("/" + e)]) for e in ELEMS}
    by_elem = {e: {v: o for v, o in bad.items() if v.endswith("/" + e)} for e in ELEMS}
    sc = by_elem["scalar"]
    sc_sig = None
    if sc:
        for oc in sorted({o[0] for o in sc.values()}):
            vs = sorted(v for v, o in sc.items() if o[0] == oc)
            qual = "" if len(vs) == nforms["scalar"] else "/only:" + ",".join(v.split("/")[0] for v in vs)
            res["getitem/%s/%s%s" % (cls, oc, qual)] = (vs, sc[vs[0]][1])
        sc_sig = {v.split("/")[0]: o[0] for v, o in sc.items()}
    vc = by_elem["vec2"]
    vc_sig = {v.split("/")[0]: o[0] for v, o in vc.items()}
    if vc and vc_sig != sc_sig:
        for oc in sorted({o[0] for o in vc.values()}):
            vs = sorted(v for v, o in vc.items() if o[0] == oc and (sc_sig or {}).get(v.split("/")[0]) != oc)
            if not vs:
                continue
            qual = "" if len(vs) == nforms["vec2"] else "/only:" + ",".join(v.split("/")[0] for v in vs)
            if mis and oc in ("wrong-data", "wrong-container"):
                k = "getitem/(S|L,S)/vector-elements/equal-result-lengths/misshaped-rows%s" % qual
            else:
                k = "getitem/%s/vector-elements/%s%s" % (cls, oc, qual)
            res[k] = (vs, vc[vs[0]][1])
    return res


# --------------------------------------------------------------------------
# attributes

def check_attrs(rec):
    """expected attributes of a shape (from TLC) against every constructed form"""
    lens, edim, exp = rec["lens"], rec["edim"], rec["attr"]
    elem = "scalar" if edim == 0 else "vec2"
    bad = []
    rows = _rows(lens, elem)
    for form in FORMS:
        try:
            a = build(lens, form, elem)
        except Exception as ex:
            bad.append((form, elem, "construct", "raised %s: %s" % (type(ex).__name__, ex), None))
            continue

        def cmp(name, f, want):
            try:
                got = f()
            except Exception as ex:
                got = "raised %s: %s" % (type(ex).__name__, ex)
            if got != want:
                bad.append((form, elem, name, got, want))
        cmp("len", lambda: len(a), exp["nrows"])
        cmp("lengths", lambda: [int(v) for v in a.lengths], exp["lengths"])
        cmp("starts", lambda: [int(v) for v in a.starts], exp["starts"])
        cmp("shape", lambda: [NONE if v is None else int(v) for v in a.shape], exp["shape"])
        cmp("size", lambda: int(a.size), exp["size"])
        cmp("flatten", lambda: decode(a.flatten() if edim == 0 else np.asarray(a.flatten()).reshape(-1, 2), elem),
            exp["flatten"])
        cmp("iteration", lambda: [decode(r, elem) for r in a], exp["iter"])
        cmp("dtype", lambda: str(a.dtype), str(np.concatenate(rows).dtype))
        cmp("flatten-shape", lambda: list(a.flatten().shape), [exp["size"]])

        # np.concatenate(rows) is a new array: what a caller does to the flat copy (sort it, mask it, scale it in
        # place) must not show in any later read
        def scribbled():
            f = a.flatten()
            f[...] = -12345
            np.sort(f)
            return [decode(r, elem) for r in a]
        cmp("flatten-is-a-copy", scribbled, exp["iter"])
    # floats: dtype attribute only
    from enspara import ra
    fa = ra.RaggedArray([r.astype(float) for r in rows])
    if str(fa.dtype) != "float64":
        bad.append(("nested-arrays", elem, "dtype-float", str(fa.dtype), "float64"))
    return dict(lens=lens, edim=edim, bad=bad, equal=len(set(lens)) == 1)


# --------------------------------------------------------------------------

def _consts(sc, shard_n, shard_k, emit, seed):
    d = {k: str(v) for k, v in sc.items()}
    if sc.get("SampleK") is None:
        d["SampleK"] = str(seed % int(sc["SampleN"]))
    d["ShardN"], d["ShardK"] = str(shard_n), str(shard_k)
    d["Emit"] = "TRUE" if emit else "FALSE"
    d["Patched"] = PATCHED
    d.setdefault("LongSel", "{}")
    d.setdefault("LongKinds", "{}")
    d.setdefault("LongMaxSel", "8")
    d.setdefault("LongMaxTot", "1200")
    return d


def run(ctx):
    import time
    tier = SCOPES[ctx.tier]
    ctx.rule = ("TLC enumerates every shape (<=MaxRows rows of length 1..MaxLen) x index expression of the grammar "
                "(int, slice with bounds in -Bound..Bound or None and steps None/1/2/-1/-2, list of length <=MaxList, "
                "the 8 pairs, ragged boolean masks); each case is replayed on 6 constructed arrays (3 construction "
                "forms x scalar/2-vector elements); a case is non-trivial when the definition yields at least one "
                "element; distinct by (shape, index)")
    ctx.rule += ("; long family: the shapes of RaggedRead!LongCatalogue x index expressions with bounds at the ends of "
                 "the axes and at the limits of int8/uint8/int16 (slices selecting <= LongMaxSel positions plus "
                 "representatives, results of <= LongMaxTot elements), incl. the pair (int, list); index operands are "
                 "handed over as Python ints/lists/tuples, numpy scalars, 0-d arrays, lists of numpy scalars and "
                 "ndarrays of every integer type that can hold the values (rotating over cases and construction "
                 "variants; every form of each slot for every case of the long family)")
    ctx.assumptions += ["stored rows are non-empty (the library's input domain); results may have empty rows",
                        "int64 element data (float64 for the dtype attribute)",
                        "pair (int, list) is exercised in the long family only",
                        "a column read ra[a:b, j] may come back as a 1-d array or as rows of length one",
                        "an index value is offered in an integer type only if the type can hold it"]
    gates = {"NARROW_INDEX_DEFECT_REPAIRED": NARROW_INDEX_DEFECT_REPAIRED,
             "UINT64_INDEX_DEFECT_REPAIRED": UINT64_INDEX_DEFECT_REPAIRED,
             "ZERO_D_INDEX_DEFECT_REPAIRED": ZERO_D_INDEX_DEFECT_REPAIRED}
    ctx.notes["gates"] = gates
    _MODE.update(tier=ctx.tier, seed=ctx.seed)
    b = core.build_repo()
    core.activate(b)
    d = core.spec_tmp(SPEC_DIR)
    # modest heaps: up to 14 JVMs run at once and the box is shared
    gc = ("-XX:ParallelGCThreads=2", "-Xmx1500m")
    gc_mc = ("-XX:ParallelGCThreads=2", "-Xmx3g")

    other, emit = [], []
    other.append(("selftest", selftest(ctx, d, run=False)))
    # attributes (all shapes of the largest emission scope)
    big = max((sc for sc, _ in tier["emit"]), key=lambda s: (s["MaxRows"], s["MaxLen"]))
    core.write_cfg(os.path.join(d, "attr.cfg"), init="InitAttr", constants=_consts(big, 1, 0, True, ctx.seed),
                   invariants=["AttrInv"])
    other.append(("attr", dict(module="RaggedRead", cfg="attr.cfg", cwd=d, label="attributes %s" % big, workers=1,
                               timeout=900, java_opts=gc)))
    sampled = []
    for si, (sc, nshard) in enumerate(tier["emit"]):
        if nshard is None:
            # larger shapes: one seeded shard out of 24 (a deterministic sample of the shapes)
            total, picks = 24, [ctx.seed % 24]
            sampled.append("shapes <=%dx%d: shard %d of %d" % (sc["MaxRows"], sc["MaxLen"], picks[0], total))
        else:
            total, picks = nshard, list(range(nshard))
        if sc["SampleN"] != 1:
            sampled.append("full products (S,S)/(S,L)/(L,S) thinned to 1/%d (seeded residue)" % sc["SampleN"])
        if sc["Pairwise"] == "TRUE":
            sampled.append("two-slot products (S,S) (S,L) (L,S) (I,S) (L,L) taken as every x representative "
                           "(10 slices, 8 lists, 3 ints, 5 pairs) in both directions, not every x every")
        for k in picks:
            name = "emit%d_%d.cfg" % (si, k)
            core.write_cfg(os.path.join(d, name), constants=_consts(sc, total, k, True, ctx.seed),
                           invariants=["EmitInv"])
            emit.append(dict(module="RaggedRead", cfg=name, cwd=d, label="emit %s shard %d/%d" % (sc, k, total),
                             workers=1, timeout=2400, java_opts=gc))
    # long rows / many rows (RaggedRead.tla Part 6): one emitting job per shape and group of index kinds
    lg = tier["long"]
    small = tier["emit"][0][0]
    for li in lg["shapes"]:
        for gi, kinds in enumerate(LONG_KIND_GROUPS):
            name = "long%d_%d.cfg" % (li, gi)
            consts = _consts(dict(small, LongSel="{%d}" % li, LongKinds="{%s}" % ", ".join('"%s"' % k for k in kinds),
                                  LongMaxSel=lg["LongMaxSel"], LongMaxTot=lg["LongMaxTot"]), 1, 0, True, ctx.seed)
            core.write_cfg(os.path.join(d, name), init="InitLong", constants=consts, invariants=["EmitLongInv"])
            # (-Xss: Flatten / SumTo recurse once per row, 130 rows deep on the many-rows shape)
            emit.append(dict(module="RaggedRead", cfg=name, cwd=d, label="emit long shape %d kinds %s" % (li, "+".join(kinds)),
                             workers=1, timeout=2400, java_opts=gc + ("-Xss64m",)))
    for mi, (sc, total, npick) in enumerate(tier["mc"]):
        picks = [(ctx.seed + j) % total for j in range(npick)]
        if npick < total:
            sampled.append("step machine on shape shards %s of %d (emission + design-level ReadEq cover all)"
                           % (picks, total))
        for k in picks:
            name = "mc%d_%d.cfg" % (mi, k)
            core.write_cfg(os.path.join(d, name), constants=_consts(sc, total, k, False, ctx.seed),
                           invariants=MC_INVS)
            other.append(("mc", dict(module="RaggedRead", cfg=name, cwd=d,
                                     label="step machine %s shard %d/%d" % (sc, k, total),
                                     workers=3, coverage=True, timeout=2400, java_opts=gc_mc)))
    ctx.exhaustive = not [s_ for s_ in sampled if "thinned" in s_ or "shard" in s_]
    ctx.notes["scope_reductions"] = sorted(set(sampled))
    ctx.notes["transcription"] = "ra.py with the proposed repairs" if PATCHED == "TRUE" else "pinned ra.py"

    found = collections.OrderedDict()     # key -> [count, examples]

    def report(key, example):
        e = found.setdefault(key, [0, []])
        e[0] += 1
        if len(e[1]) < 3:
            e[1].append(example)

    st = dict(ncase=0, nev=0, nfid=0, nskip=0, nlong=0, fid_ex=[], percls=collections.Counter(),
              badcls=collections.Counter(), gated=collections.Counter(), forms=collections.Counter())

    def process_emit(r):
        lines = [p for t, p in r.prints if t == "CASE"]
        r.prints = None
        r.stdout = None
        if not lines:
            if r.distinct == 0:      # a shape shard without shapes
                return
            raise core.MachineryError("an emitting run printed no CASE line")
        lines.sort(key=lambda rec: rec["lens"])
        for rec, res in zip(lines, core.pmap(replay_batch, lines, chunk=40)):
            st["ncase"] += res["n"]
            st["nev"] += res["evals"]
            st["nfid"] += res["fid"]
            st["nskip"] += res["skipped"]
            st["nlong"] += res["nlong"]
            st["gated"].update(res["gated"])
            st["forms"].update(res["forms"])
            if len(st["fid_ex"]) < 5:
                st["fid_ex"] += res["fid_ex"]
            ctx.nontrivial.update(res["nontriv"])
            ctx.traces += res["n"]
            st["percls"].update(res["percls"])
            st["badcls"].update(res["badcls"])
            if res["sample"] and len(ctx.samples) < 5:
                ctx.samples.append(res["sample"])
            for df in res["design_false"]:
                ctx.violation(dict(kind="model", how="RaggedRead!EmitCase: design-level ReadEq is FALSE: the "
                                   "transcribed arithmetic and the definition (dis)agree outside the stated classes",
                                   case=df), key="model/RaggedRead/DesignReadEq/%s" % df["cls"])
            for key, (n, ex) in res["keys"].items():
                e = found.setdefault(key, [0, []])
                e[0] += n
                if len(e[1]) < 3:
                    e[1].append(ex)

    # TLC jobs run in a pool of threads; the output of an emitting run is parsed, replayed and dropped as soon as the
    # run is over, while the remaining jobs go on (the step machine is the longest job and starts first)
    from concurrent.futures import ThreadPoolExecutor, as_completed
    t00 = time.time()
    t_rep = 0.0
    jobs = [(k, j) for k, j in other if k == "mc"] + [(k, j) for k, j in other if k != "mc"] + [("emit", j) for j in emit]

    def one(kj):
        j = dict(kj[1])
        j.pop("label", None)
        return core.run_tlc(j.pop("module"), j.pop("cfg"), j.pop("cwd"), **j)
    other_res = []
    with ThreadPoolExecutor(10 if ctx.tier == "quick" else 8) as ex:
        futs = {ex.submit(one, kj): kj for kj in jobs}
        try:
            for fut in as_completed(futs):
                kind_, job = futs[fut]
                r = ctx._account(fut.result(), job["module"], job["cfg"], job.get("label"), True)
                if kind_ == "emit":
                    t0 = time.time()
                    process_emit(r)
                    t_rep += time.time() - t0
                else:
                    if kind_ != "attr":
                        r.stdout = None
                    other_res.append((kind_, r))
        except BaseException:
            for f in futs:
                f.cancel()
            raise
    ctx.notes["wall_tlc_and_replay_s"] = round(time.time() - t00, 1)
    ctx.notes["wall_replay_phases_s"] = round(t_rep, 1)

    # --- self-test
    selftest_check(ctx, next(r for k, r in other_res if k == "selftest"))

    # --- vacuity of the step machine
    cov = collections.Counter()
    for k, r in other_res:
        if k == "mc":
            cov.update(r.coverage)
    for act in ("Choose", "Dispatch", "SliceToList", "Iis", "Convert", "GatherStep", "WrapStep"):
        if cov.get(act, 0) == 0:
            raise core.MachineryError("step machine: action %s never fired (coverage %s)" % (act, dict(cov)))
    ctx.notes["action_counts"] = dict(cov)

    # --- attributes
    attrs = [p for t, p in next(r for k, r in other_res if k == "attr").prints if t == "ATTR"]
    if not attrs:
        raise core.MachineryError("no ATTR lines emitted")
    attr_bad = collections.defaultdict(list)      # (attribute, shape) -> failing (form, elem, got, want, equal)
    for res in core.pmap(check_attrs, attrs, chunk=8):
        ctx.case(("attr", tuple(res["lens"]), res["edim"]))
        ctx.traces += 1
        for form, elem, name, got, want in res["bad"]:
            attr_bad[(name, tuple(res["lens"]))].append((form, elem, got, want, res["equal"]))
    for (name, lens), fails in sorted(attr_bad.items()):
        everywhere = len({(f, e) for f, e, _, _, _ in fails}) == len(FORMS) * len(ELEMS)
        for form, elem, got, want, equal in (fails[:1] if everywhere else fails):
            key = "attr/%s" % name if everywhere else \
                "attr/%s/%s/%s%s" % (name, form, "vector-elements" if elem == "vec2" else "scalar-elements",
                                     "/equal-row-lengths" if equal else "")
            report(key, dict(kind="attribute", lens=list(lens), form=form, elem=elem, attribute=name,
                             observed=got, expected=want))

    if st["ncase"] == 0:
        raise core.MachineryError("no case was emitted")
    ctx.evaluations += st["ncase"]
    ctx.notes["cases"] = st["ncase"]
    ctx.notes["reads_evaluated"] = st["nev"]
    ctx.notes["reads_skipped_source_array_misconstructed"] = st["nskip"]
    ctx.notes["cases_long_family"] = st["nlong"]
    if not st["nlong"]:
        raise core.MachineryError("the long family emitted no case")
    ctx.notes["reads_per_index_form"] = dict(st["forms"])
    # vacuity: every integer type was handed over as a scalar, as a 0-d array and as an ndarray
    fcount = collections.Counter()
    for fk, c in st["forms"].items():
        for part in fk.split(","):
            fcount[part] += c
    missing = [n + "-" + c for n, _, _, _, _ in INT_TYPES for c in ("scalar", "0d", "ndarray", "list-of-scalars")
               if not fcount.get(n + "-" + c)]
    if missing or not fcount.get("tuple") or not fcount.get("python"):
        raise core.MachineryError("index forms never exercised: %s" % (missing or "tuple/python"))
    ctx.notes["gated_index_forms"] = dict(st["gated"])      # (case, form) combinations waiting for a repair
    ctx.notes["cases_per_class"] = dict(st["percls"])
    ctx.notes["mismatching_cases_per_class"] = dict(st["badcls"])
    ctx.notes["transcription_vs_real_disagreements"] = {"n": st["nfid"], "examples": st["fid_ex"]}
    if ctx.tier == "thorough":
        trace_validate(ctx, b, d, report)
    for key, (n, exs) in sorted(found.items()):
        rec = dict(exs[0])
        rec["n_cases"] = n
        rec["more_examples"] = exs[1:]
        ctx.violation(rec, key=key)
    ctx.notes["finding_keys"] = {k: v[0] for k, v in found.items()}
    import resource
    ctx.notes["cpu_s"] = {"driver_process": round(sum(resource.getrusage(resource.RUSAGE_SELF)[:2]), 1),
                          "tlc_and_replay_children": round(sum(resource.getrusage(resource.RUSAGE_CHILDREN)[:2]), 1)}


def trace_validate(ctx, build_dir, d, report):
    """Binding B (thorough): the reads performed by enspara/test/test_ra.py,
    recorded through harness/c05_trace_plugin.py, are judged by TLC
    (specs/ragged/Trace_RaggedRead.tla: observed = Get(rows, ix))."""
    import subprocess
    tmp = core.scratch("ev_c05tr_")
    raw = os.path.join(tmp, "reads.ndjson")
    env = dict(os.environ)
    env["C05_TRACE_OUT"] = raw
    env["PYTHONPATH"] = os.pathsep.join([os.path.join(core.VERIF, "harness", "fakempi"), build_dir, core.VERIF])
    env["OMP_NUM_THREADS"] = "1"
    p = subprocess.run([core.PY, "-m", "pytest", "-q", "-x", "-p", "no:cacheprovider", "-p", "harness.c05_trace_plugin",
                        os.path.join(build_dir, "enspara", "test", "test_ra.py")],
                       cwd=build_dir, env=env, stdout=subprocess.PIPE, stderr=subprocess.STDOUT, text=True, timeout=1200)
    if not os.path.exists(raw):
        raise core.MachineryError("test_ra.py under the trace plugin produced no trace:\n" + p.stdout[-2000:])
    recs = [json.loads(l) for l in open(raw)]
    summary = recs.pop() if recs and "summary" in recs[-1] else {}
    if not recs:
        raise core.MachineryError("no read recorded from test_ra.py:\n" + p.stdout[-2000:])
    # identical reads are judged once
    uniq, order = {}, []
    for r in recs:
        k = json.dumps([r["rows"], r["ix"], r["res"]])
        if k not in uniq:
            uniq[k] = r
            order.append(r)
    tf = os.path.join(tmp, "traces.ndjson")
    with open(tf, "w") as fh:
        for r in order:
            fh.write(json.dumps({"rows": r["rows"], "ix": r["ix"], "res": r["res"]}) + "\n")
    sc = dict(MaxRows=1, MaxLen=1, Bound=1, MaxList=0, MaskMax=0, Pairwise="TRUE", SampleN=1, SampleK=0)
    core.write_cfg(os.path.join(d, "trace.cfg"), init="TraceInit", next_="TraceNext",
                   constants=_consts(sc, 1, 0, False, 0), invariants=["Verdict"])
    r = ctx.tlc("Trace_RaggedRead", "trace.cfg", d, label="trace validation of %d distinct reads of test_ra.py" % len(order),
                workers=1, timeout=900, env={"TRACE_FILE": tf}, java_opts=("-XX:ParallelGCThreads=2",))
    verdicts = {v[0]: v[1:] for t, v in r.prints if t == "TV"}
    acc = rej = 0
    for tid, rec in enumerate(order, 1):
        if tid not in verdicts:
            raise core.MachineryError("no verdict for recorded read %d: %r" % (tid, rec))
        verdict, cls, exp = verdicts[tid][0], verdicts[tid][1], verdicts[tid][2]
        ctx.traces += 1
        ctx.case(("trace", tid))
        if verdict == "ACCEPT":
            acc += 1
            continue
        if verdict == "MALFORMED":
            continue
        rej += 1
        exp = json.loads(exp)
        report("getitem/%s/%s" % (cls, outcome(exp, rec["res"])),
               dict(kind="trace", source="enspara/test/test_ra.py::%s" % rec["test"], rows=rec["rows"], ix=rec["ix"],
                    index_class=cls, expected=exp, observed=rec["res"],
                    how="read recorded from the test run, judged by Trace_RaggedRead!Verdict"))
    ctx.notes["trace_validation_test_ra"] = dict(reads_recorded=len(recs), distinct=len(order), accepted=acc, rejected=rej,
                                                 not_encodable=summary.get("skipped"),
                                                 pytest_tail=p.stdout.strip().splitlines()[-1:] )


def replay(ctx, path):
    rec = json.load(open(path))
    b = core.build_repo()
    core.activate(b)
    ctx.case(("replay",), sample={k: rec.get(k) for k in ("lens", "a", "b", "expected")})
    ctx.nontrivial.add(("replay2",))
    if rec.get("kind") == "attribute":
        # expected attribute values were computed by TLC and are stored in the record
        a = build(rec["lens"], rec["form"], rec["elem"])
        name = rec["attribute"]
        elem = rec["elem"]
        get = {"len": lambda: len(a), "lengths": lambda: [int(v) for v in a.lengths],
               "starts": lambda: [int(v) for v in a.starts],
               "shape": lambda: [NONE if v is None else int(v) for v in a.shape], "size": lambda: int(a.size),
               "flatten": lambda: decode(a.flatten() if elem == "scalar" else np.asarray(a.flatten()).reshape(-1, 2), elem),
               "iteration": lambda: [decode(r, elem) for r in a], "dtype": lambda: str(a.dtype),
               "flatten-shape": lambda: list(a.flatten().shape),
               "flatten-is-a-copy": lambda: (a.flatten().__setitem__(Ellipsis, -12345), [decode(r, elem) for r in a])[1]}[name]
        try:
            got = get()
        except Exception as ex:
            got = "raised %s: %s" % (type(ex).__name__, ex)
        if got != rec["expected"]:
            ctx.violation(dict(rec, observed=got), key=rec["key"])
        return
    if rec.get("kind") == "trace":
        # a read recorded from test_ra.py; the expected value was computed by TLC and is stored in the record
        from enspara import ra
        arr = ra.RaggedArray([np.array(r) for r in rec["rows"]])
        enc = rec["ix"]
        if "m" in enc:
            ix = ra.RaggedArray([list(r) for r in enc["m"]])
        elif "r" in enc:
            ix = (py_index(enc["r"]), py_index(enc["c"]))
        else:
            ix = py_index(enc)
        try:
            res = arr[ix]
            if isinstance(res, ra.RaggedArray):
                got = {"r": [np.asarray(r).tolist() for r in res]}
            elif isinstance(res, np.ndarray) and res.ndim > 0:
                got = {"f": res.tolist()}
            else:
                got = {"v": np.asarray(res).item()}
        except Exception as ex:
            got = {"e": type(ex).__name__}
        if not same(rec["expected"], got):
            ctx.violation(dict(rec, observed=got), key=rec["key"])
        return
    if rec.get("kind") != "replay":
        print("record of kind %r: re-run ./check C05 instead" % rec.get("kind"))
        return
    line = dict(lens=rec["lens"], kind=rec["index_kind"], a=rec["a"], long=rec.get("long", 0),
                res=[[rec["b"], rec["expected"], rec["index_class"], 0, rec.get("mis", 0), True]])
    if rec.get("index_forms"):
        line["force_forms"] = rec["index_forms"]     # the operand forms of the recorded read, on every variant
    res = replay_batch(line)
    for key, (n, ex) in res["keys"].items():
        ctx.violation(dict(rec, observed=ex["observed"], variants=ex["variants"]), key=key)
