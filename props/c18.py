"""C18 -- joint counts are exact; mutual information obeys its algebraic laws.

(A) spec -> code: specs/info/JointCounts.tla.  TLC checks JCExact / Partial / Total / OwnBlock /
    NoOutOfBounds / Rejected on the kernel-shaped model (one prange iteration per first-side feature,
    arbitrary interleaving) and emits every input in scope with the expected table (declared and
    default state counts) or the expected error terminal (id < 0, id >= n at every placement, unequal
    lengths).  Worker processes (one per OMP_NUM_THREADS value, harness/info_worker.py) replay them
    into mutual_info.joint_counts, libinfo.matrix_bincount2d and libinfo.bincount2d over the 8 integer
    dtypes, C / Fortran / strided / reversed layouts and mixed dtypes.
(B) code -> spec: specs/info/InfoLaws.tla.  Metamorphic sessions on TLC-enumerated (and, thorough,
    random larger) data sets: the workers execute the prescribed operations, project the outputs to
    scaled integers and TLC evaluates every clause; for dyadic data TLC also returns the exact values
    in bits, which are compared with the floats here (1e-9).
"""
import itertools
import json
import math
import os
import subprocess
from concurrent.futures import ThreadPoolExecutor

import numpy as np

from harness import core

SPEC_DIR = os.path.join(core.SPECS, "info")
INVS = ["TypeOK", "JCExact", "Partial", "Total", "Rejected", "AcceptedOnlyValid", "NoOutOfBounds", "OwnBlock"]
WORKER = os.path.join(core.VERIF, "harness", "info_worker.py")


def S(TMax, Fx, Fy, NX, NY, Self=False, Mode="valid"):
    return dict(TMax=TMax, Fx=Fx, FyC=Fy, NX=NX, NYC=NY, Self=Self, Mode=Mode)


SCOPES = {
    "quick": [S(4, 1, 1, 2, 3), S(4, 1, 1, 3, 2), S(3, 2, 1, 3, 2), S(3, 1, 2, 3, 2),
              S(2, 2, 2, 2, 3), S(4, 1, 1, 1, 2), S(3, 2, 2, 3, 3, Self=True), S(4, 1, 1, 3, 3, Self=True),
              S(2, 1, 1, 2, 3, Mode="badid"), S(2, 2, 1, 3, 2, Mode="badid"), S(2, 1, 2, 2, 3, Mode="badid"),
              S(1, 2, 2, 2, 3, Mode="badid"), S(2, 2, 2, 3, 3, Self=True, Mode="badid"),
              S(3, 1, 1, 2, 3, Mode="badlen"), S(2, 2, 1, 3, 2, Mode="badlen")],
}
SCOPES["thorough"] = SCOPES["quick"] + [
    S(3, 2, 1, 2, 3), S(3, 2, 2, 2, 3), S(3, 2, 2, 3, 2), S(4, 2, 1, 3, 2), S(4, 1, 2, 2, 3), S(6, 1, 1, 2, 3),
    S(4, 2, 2, 3, 3, Self=True),
    S(2, 2, 2, 2, 3, Mode="badid"), S(3, 1, 2, 3, 2, Mode="badid"), S(3, 2, 2, 2, 3, Mode="badlen")]
THREADS = [1, 2, 4, 16, 301]       # 301: three OpenMP threads in a process confined to ONE processor (cpuset / batch slot)
# quick tier: share of the emitted valid inputs replayed at each thread count (a parallel region with 16
# threads costs ~0.5 ms on the shared machine); the thorough tier replays everything everywhere
SHARE = {1: 1, 2: 1, 4: 2, 16: 6, 301: 4}
SWEEP = list(range(1, 17))


def n_inputs(sc):
    """number of base inputs of a scope (decides how the TLC work is split)"""
    per_frame = sc["NX"] ** sc["Fx"] * (1 if sc["Self"] else sc["NYC"] ** sc["FyC"])
    return sum(per_frame ** t for t in range(1, sc["TMax"] + 1))


def consts(sc, **kw):
    d = {k: (core.tla_lit(v)) for k, v in sc.items()}
    d.update(CheckLower="TRUE", Sched='"any"', Emit="FALSE")
    d.update(kw)
    return d


# ---------------------------------------------------------------------------------------
# workers

def run_worker(arg):
    build, threads, jobs, tag = arg
    d = core.scratch("ev_c18_")
    jobf, resf = os.path.join(d, "jobs.json"), os.path.join(d, "res.json")
    json.dump(jobs, open(jobf, "w"))
    env = dict(os.environ, OMP_NUM_THREADS=str(threads if threads < 100 else threads // 100), OMP_WAIT_POLICY="PASSIVE",
               OPENBLAS_NUM_THREADS="1", NUMEXPR_NUM_THREADS="1", PYTHONPATH="", VERIF_POISON="1",
               VERIF_ONE_CPU="1" if threads >= 100 else "0", OMP_DYNAMIC="false")
    p = subprocess.run([core.PY, WORKER, build, jobf, resf], stdout=subprocess.PIPE, stderr=subprocess.PIPE,
                       text=True, env=env, timeout=6000)
    if p.returncode != 0 or not os.path.exists(resf):
        raise core.MachineryError("info worker (%s threads, %s) failed rc=%s: %s" % (threads, tag, p.returncode,
                                                                                   p.stderr[-3000:]))
    res = json.load(open(resf))
    res["threads"] = threads
    return res


# ---------------------------------------------------------------------------------------
# session plans (what to do is decided here; what it must yield is decided by InfoLaws.tla)

def plan_session(rng, X, Y, nx, ny, rich=True, pooled=False):
    X, Y = np.asarray(X), np.asarray(Y)
    T, Fx, Fy = len(X), X.shape[1], Y.shape[1]
    nx, ny = [int(v) for v in nx], [int(v) for v in ny]
    nx0, ny0 = list(nx), list(ny)          # declared counts of the original orientation
    ops = [{"ev": "observe"}]

    def norm(of, via, a, b, xs=0, ys=0, asarray=0):
        ops.append({"ev": "normalise", "of": of, "via": via, "nxs": [int(v) for v in a], "nys": [int(v) for v in b],
                    "xscalar": xs, "yscalar": ys, "asarray": asarray})

    def perms(n):
        return [[int(v) for v in rng.permutation(k)] for k in n]

    norm("last", "ccn", nx, ny, asarray=int(rng.randint(2)))
    norm("last", "mi_matrix", nx, ny)
    norm("last", "ccn", rng.randint(2, 7, size=Fx), rng.randint(2, 7, size=Fy), asarray=int(rng.randint(2)))
    if rich:
        k = int(rng.randint(2, 6))
        norm("last", "ccn", [k], rng.randint(2, 7, size=Fy), xs=1)
        norm("last", "ccn", rng.randint(2, 7, size=Fx), [int(rng.randint(2, 6))], ys=1)
        bad = rng.randint(3)
        if bad == 0:
            a = list(rng.randint(2, 5, size=Fx))
            a[rng.randint(Fx)] = 1
            norm("last", "ccn", a, rng.randint(2, 5, size=Fy))
        elif bad == 1:
            norm("last", "ccn", rng.randint(2, 5, size=Fx + 1), rng.randint(2, 5, size=Fy))
        else:
            norm("last", "ccn", rng.randint(2, 5, size=Fx), rng.randint(2, 5, size=Fy + 1))
    ops.append({"ev": "self"})
    norm("self", "mi_matrix", nx, nx)
    if rich:
        norm("self", "mi_matrix_serial", nx, nx)
    ops.append({"ev": "weighted", "w": [int(rng.randint(1, 3))] * T, "raw": int(rng.randint(2))})
    w = [int(v) for v in rng.randint(0, 4, size=T)]
    if sum(w) == 0:
        w[0] = 1
    if sum(w) <= 64:
        ops.append({"ev": "weighted", "w": w, "raw": int(rng.randint(2))})
        norm("weighted", "weighted_mi", nx, nx)
    order = ["relabel_x", "relabel_y", "reorder", "split", "replicate", "swap"]
    rng.shuffle(order)
    for o in order:
        if o == "relabel_x":
            ops.append({"ev": "relabel", "side": "x", "perms": perms(nx)})
        elif o == "relabel_y":
            ops.append({"ev": "relabel", "side": "y", "perms": perms(ny)})
        elif o == "reorder":
            ops.append({"ev": "reorder", "perm": [int(v) + 1 for v in rng.permutation(T)]})
        elif o == "split" and T >= 2:
            ncut = int(rng.randint(1, min(3, T - 1) + 1))
            ops.append({"ev": "split", "cuts": sorted(int(v) for v in rng.choice(np.arange(1, T), size=ncut, replace=False)),
                        "form": int(rng.randint(25)), "nform": int(rng.randint(3))})
        elif o == "replicate":
            k = int(rng.randint(2, 4))
            if k * T <= 64:
                ops.append({"ev": "replicate", "k": k})
                T *= k
        elif o == "swap":
            ops.append({"ev": "swap"})
            nx, ny, Fx, Fy = ny, nx, Fy, Fx
            norm("last", "ccn", nx, ny)
    ops.append({"ev": "observe"})
    if pooled:
        # 18 trajectories of just under 2^16 frames each: every cell of the pooled table holds more than 2^16 counts
        ops.append({"ev": "pooled", "k": 65000 // T, "parts": 18, "form": int(rng.randint(25)), "nform": int(rng.randint(3))})
    if rich:
        ops.append({"ev": "self"})
        lens = [Fx, Fx] if rng.randint(2) or Fx < 2 else [Fx, Fx - 1]
        ops.append({"ev": "check", "lens": lens, "nlen": int(Fx + rng.randint(2))})
        if Fx >= 2:
            ops.append({"ev": "poolmismatch"})
    return {"X": X.tolist(), "Y": Y.tolist(), "nx": nx0, "ny": ny0, "ops": ops}


def declared(rng, D, nmin):
    """per-feature declared state count: at least max id + 1 and at least 2, at most 4"""
    return [int(rng.randint(max(int(D[:, f].max()) + 1, 2, nmin), 5)) for f in range(D.shape[1])]


def kl_pairs(tier):
    def comps(D, k):
        return [c for c in itertools.product(range(D + 1), repeat=k) if sum(c) == D]
    out = []
    for k, Ds in ((2, (1, 2, 3, 4, 8)), (3, (2, 3, 4)), (4, (4,))):
        allc = [c for D in Ds for c in comps(D, k)]
        for p in allc:
            for q in allc:
                out.append([list(p), list(q)])
    if tier == "thorough":
        allc = comps(8, 3) + comps(6, 3) + comps(16, 2) + comps(12, 2)
        out += [[list(p), list(q)] for p in allc for q in allc if len(p) == len(q)]     # (same support size)
    return out


CALLSITE = {"observe": "mi_matrix", "self": "mi_matrix(X,X)", "weighted": "weighted_mi", "relabel": "mi_matrix",
            "reorder": "mi_matrix", "replicate": "mi_matrix", "split": "mi_matrix(pooled)", "swap": "mi_matrix", "pooled": "mi_matrix(pooled)",
            "check": "check_features_states", "poolmismatch": "mi_matrix(pooled)", "kl": "kl_divergence"}


def clause_key(clause, e):
    if e.get("ev") == "normalise":
        via = {"ccn": "channel_capacity_normalization", "mi_matrix": "mi_matrix(normalize)",
               "mi_matrix_serial": "mi_matrix_serial(normalize)", "weighted_mi": "weighted_mi(normalize)"}[e["via"]]
        if clause == "NormaliseRaisesNonSquare":
            k = "channel_capacity_normalization/grid-transposed/raises"
            if not (e.get("exc", "").startswith("ValueError") and "broadcast" in e.get("exc", "")):
                k += "/" + e.get("exc", "?").split(":")[0]
            return k
        if clause == "ChannelNormalisationTransposedGrid":
            return "channel_capacity_normalization/grid-transposed/wrong-value"
        return "%s/%s" % (via, clause)
    if e.get("ev") == "raise":
        return "%s/raises/%s" % (CALLSITE.get(e.get("op"), e.get("op")), e.get("msg", "?").split(":")[0])
    if clause == "JCExact":
        return "joint_counts/session/wrong-table"
    if clause in ("EntropyByDefinition", "EntropyNormaliseFlag"):
        return "shannon_entropy/%s" % clause
    return "%s/%s" % (CALLSITE.get(e.get("ev"), e.get("ev")), clause)


# ---------------------------------------------------------------------------------------

def validate_sessions(ctx, d, recs):
    """TLC evaluates InfoLaws.tla on the recorded sessions; returns nothing, reports through ctx."""
    if not recs:
        return
    nchunk = max(1, min(8, len(recs) // 150))
    chunks = [recs[i::nchunk] for i in range(nchunk)]
    jobs = []
    for i, ch in enumerate(chunks):
        tf = os.path.join(d, "sessions%d.json" % i)
        json.dump([{k: v for k, v in r.items() if k != "_f"} for r in ch], open(tf, "w"))
        core.write_cfg(os.path.join(d, "laws.cfg"), invariants=["Report"])
        jobs.append(dict(module="InfoLaws", cfg="laws.cfg", cwd=d, label="InfoLaws trace validation (%d traces)" % len(ch),
                         workers=1, env={"TRACE_FILE": tf}, timeout=3000, java_opts=("-XX:ParallelGCThreads=2",)))
    results = ctx.tlc_parallel(jobs)
    clause_count = {}
    n_expect = 0
    for ch, r in zip(chunks, results):
        verdict = {p[0]: (p[1], p[2]) for t, p in r.prints if t == "VERDICT"}
        for k, rec in enumerate(ch):
            ctx.traces += 1
            v = verdict.get(k + 1)
            if v is None:
                raise core.MachineryError("no verdict for session %d" % (k + 1))
            fails, expect = v
            shape = (len(rec["X"]), len(rec["nx"]), len(rec["ny"]), tuple(rec["nx"]), tuple(rec["ny"])) if rec["kind"] == "mi" \
                else ("kl", tuple(rec["p"]), tuple(rec["q"]))
            nontriv = rec["kind"] == "kl" or any(any(abs(x) > 2 for row in e.get("mi6", []) for x in row)
                                                 for e in rec["events"] if e["ev"] == "observe")
            ctx.case((str(rec["X"]), str(rec["Y"]), shape) if nontriv else None,
                     sample={"X": rec["X"], "Y": rec["Y"], "nx": rec["nx"], "ny": rec["ny"],
                             "events": [e["ev"] for e in rec["events"]]} if nontriv and rec["kind"] == "mi"
                     and len(rec["nx"]) != len(rec["ny"]) else None)
            for e in rec["events"]:
                clause_count[e["ev"]] = clause_count.get(e["ev"], 0) + 1
            for clause, l in fails:
                if clause == "BadTrace":
                    raise core.MachineryError("malformed session (driver/worker bug) at event %s: %r" %
                                              (l, {k2: v2 for k2, v2 in rec.items() if k2 != "_f"}))
                e = rec["events"][l - 1] if l else {}
                ctx.violation({"kind": "trace-rejected", "clause": clause, "event_index": l, "event": e,
                               "session": {k2: v2 for k2, v2 in rec.items() if k2 != "_f"},
                               "threads": rec.get("threads"),
                               "how": "InfoLaws.tla clause fails on the recorded output of the real code"},
                              key=clause_key(clause, e))
            for (l, kind, a, b, num, den) in expect:
                f = rec["_f"].get(str(l), rec["_f"].get(l))
                if f is None:
                    raise core.MachineryError("no float kept for expectation %r" % ((l, kind),))
                x = {"mi": lambda: f["mi"][a - 1][b - 1], "hx": lambda: f["hx"][a - 1], "hy": lambda: f["hy"][a - 1],
                     "klbits": lambda: f["klbits"]}[kind]()
                xb = x if kind == "klbits" else x / math.log(2.0)       # projection nats -> bits
                n_expect += 1
                if not (math.isfinite(xb) and core.close(xb, num, den)):
                    site = {"mi": "mutual_information", "hx": "shannon_entropy", "hy": "shannon_entropy",
                            "klbits": "kl_divergence(base=2)"}[kind]
                    ctx.violation({"kind": "replay", "what": kind, "got_bits": xb, "expected": [num, den],
                                   "session": {k2: v2 for k2, v2 in rec.items() if k2 != "_f"}, "event_index": l,
                                   "how": "exact value in bits computed by InfoLaws.tla for dyadic data"},
                                  key="%s/dyadic-exact-bits" % site)
    ctx.notes["session_events"] = clause_count
    ctx.notes["dyadic_exact_comparisons"] = ctx.notes.get("dyadic_exact_comparisons", 0) + n_expect


def run(ctx):
    ctx.rule = ("(A) every pair of feature trajectories in the configured scopes (<= TMax frames, Fx, Fy in {1,2} incl. "
                "Fx != Fy, <= 3 states with n_x != n_y, X against itself) and every placement of one invalid id "
                "(-1, -n, n, n+1) / unequal lengths; non-trivial = at least two frames or an invalid input; "
                "(B) one metamorphic session per sampled data set; non-trivial = some MI entry > 2e-6")
    ctx.assumptions += ["at least one frame (a.max() of an empty array raises in numpy; the property is not decided for T = 0)",
                        "ids fit the dtype (n <= 4); declared state counts are scalars for joint_counts (the API) and "
                        "per-feature lists for mi_matrix / normalisation",
                        "OpenMP thread counts via OMP_NUM_THREADS in separate processes; the interleavings are the "
                        "runtime's (the model checks all interleavings of the prange iterations)",
                        "law clauses at 2e-6 absolute (x1e6 integers), normalisation at ~2.5e-4 (x1e4, 32-bit budget), "
                        "ln table to k = 64",
                        "H and MI are computed in nats only by the API; bits via kl_divergence(base=2) and via the "
                        "projection x / ln 2 for the dyadic exact comparison"]
    b = core.build_repo()
    core.activate(b)
    d = core.spec_tmp(SPEC_DIR)
    rng = np.random.RandomState(ctx.seed + 18)
    scopes = SCOPES[ctx.tier]
    jobs, emit_idx = [], []
    java = ("-XX:ParallelGCThreads=2", "-Xmx3g")
    for i, sc in enumerate(scopes):
        if n_inputs(sc) <= 3000:
            # one run: all interleavings, all invariants, action coverage, and the emission
            core.write_cfg(os.path.join(d, "mc%d.cfg" % i), constants=consts(sc, Emit="TRUE"), invariants=INVS + ["EmitInv"])
            jobs.append(dict(module="JointCounts", cfg="mc%d.cfg" % i, cwd=d, label="exhaustive + emit %s" % sc,
                             coverage=True, workers=1, timeout=3000, java_opts=java))
            emit_idx.append(len(jobs) - 1)
        else:
            core.write_cfg(os.path.join(d, "mc%d.cfg" % i), constants=consts(sc), invariants=INVS)
            jobs.append(dict(module="JointCounts", cfg="mc%d.cfg" % i, cwd=d, label="exhaustive %s" % sc,
                             workers=4, timeout=6000, java_opts=java))
            core.write_cfg(os.path.join(d, "emit%d.cfg" % i), constants=consts(sc, Sched='"seq"', Emit="TRUE"),
                           invariants=["EmitInv"])
            jobs.append(dict(module="JointCounts", cfg="emit%d.cfg" % i, cwd=d, label="emit %s" % sc, workers=1,
                             timeout=6000, java_opts=java))
            emit_idx.append(len(jobs) - 1)
    # what-if: a validator that asserts only the upper bound (vacuity control of OwnBlock / NoOutOfBounds)
    wi = S(2, 2, 1, 3, 2, Mode="badid")
    core.write_cfg(os.path.join(d, "whatif.cfg"), constants=consts(wi, CheckLower="FALSE"), invariants=["OwnBlock"])
    jobs.append(dict(module="JointCounts", cfg="whatif.cfg", cwd=d, expect_ok=False, workers=1, timeout=600,
                     label="what-if: upper-bound-only validator must reach a stray write (OwnBlock violated)"))
    results = ctx.tlc_parallel(jobs, max_par=10)
    if results[-1].violated != "OwnBlock":
        raise core.MachineryError("what-if model without the lower-bound check did not reach a stray write: the "
                                  "invariants OwnBlock/NoOutOfBounds would be vacuous")
    ctx.notes["whatif_upper_bound_only_validator"] = "stray write reachable (OwnBlock violated, as expected)"
    valid, invalid = [], []
    for i, sc in enumerate(scopes):
        r = results[emit_idx[i]]
        cases = [p for t, p in r.prints if t == "CASE"]
        if not cases:
            raise core.MachineryError("no CASE lines emitted for scope %s" % sc)
        for c in cases:
            (valid if c["err"] == "none" else invalid).append(c)
        r.stdout, r.prints = "", []
    valid = list(enumerate(valid))
    invalid = list(enumerate(invalid))
    ctx.notes["emitted"] = {"valid": len(valid), "invalid": len(invalid)}

    # ---- sessions: data sets = sample of the emitted valid inputs (+ random larger ones)
    nsess = 1200 if ctx.tier == "quick" else 8000
    pool = [c for _, c in valid if not c["self"]]
    specs = []
    for ci in sorted(rng.choice(len(pool), size=min(nsess, len(pool)), replace=False)):
        c = pool[ci]
        X, Y = np.array(c["X"]), np.array(c["Y"])
        specs.append(plan_session(rng, X, Y, declared(rng, X, 0), declared(rng, Y, 0), rich=True,
                                  pooled=len(specs) % 10 == 3))
    nbig = 120 if ctx.tier == "quick" else 1500
    for _ in range(nbig):
        T = int(rng.choice([4, 8, 8, 12, 16, 20]))
        Fx, Fy = int(rng.randint(1, 7)), int(rng.randint(1, 7))
        mx, my = int(rng.randint(2, 5)), int(rng.randint(2, 5))
        if rng.randint(3) == 0:                 # dyadic data: every feature is a bit field of the frame number
            kbits = int(rng.randint(2, 5))
            T = 2 ** kbits
            t = rng.permutation(T)

            def field():
                wd = int(rng.randint(1, 3))
                return (t >> int(rng.randint(0, kbits - wd + 1))) & (2 ** wd - 1)
            X = np.stack([field() for _ in range(Fx)], axis=1)
            Y = np.stack([field() for _ in range(Fy)], axis=1)
        else:
            X, Y = rng.randint(0, mx, size=(T, Fx)), rng.randint(0, my, size=(T, Fy))
        specs.append(plan_session(rng, X, Y, declared(rng, X, 0), declared(rng, Y, 0), rich=True,
                                  pooled=len(specs) % 10 == 3))
    kls = kl_pairs(ctx.tier)

    # ---- workers: one process per (thread count, shard)
    quick = ctx.tier == "quick"
    # (sub-sampling by a seeded random subset: strides would alias with the enumeration order of TLC)
    def subset(seq, share):
        if share == 1:
            return list(seq)
        keep = sorted(rng.choice(len(seq), size=max(1, len(seq) // share), replace=False))
        return [seq[i] for i in keep]
    inv_sel = subset(invalid, 4) if quick else invalid
    args = []
    nw = 2 * len(THREADS)
    for ti, th in enumerate(THREADS):
        share = SHARE[th] if quick else 1
        mine = subset(valid, share)
        for s_ in range(2):
            w = 2 * ti + s_
            args.append((b, th, {"valid": mine[s_::2], "full": False, "slot": ti,
                                 "invalid": inv_sel[w::nw] if quick else inv_sel[s_::2],
                                 "sessions": specs[w::nw] if quick else [],
                                 "kl": kls[w::nw]}, "shard %d" % s_))
    if not quick:
        for th in THREADS:
            args.append((b, th, {"valid": valid[th % 7::25], "full": True}, "full variants"))
        for th in SWEEP:
            args.append((b, th, {"sessions": specs[th - 1::len(SWEEP)]}, "sweep"))
    with ThreadPoolExecutor(min(16, len(args))) as ex:
        outs = list(ex.map(run_worker, args))

    vdict, idict = dict(valid), dict(invalid)
    calls = 0
    recs = []
    seen_valid = {}
    for (bd, th, jb, tag), out in zip(args, outs):
        calls += out["valid_calls"]
        for k, _ in jb.get("valid", []):
            seen_valid.setdefault(k, set()).add(th)
        for m in out["valid_mismatch"]:
            c = vdict[m["k"]]
            ctx.violation({"kind": "replay", "form": m["form"], "threads": th, "detail": m["detail"], "case": c,
                           "how": "real function vs JointCounts.tla table"}, key=m["form"])
        for m in out["invalid"]:
            c = idict[m["k"]]
            ctx.evaluations += 1
            oc = m["outcome"] or "not-run"
            if oc.startswith("raised"):
                continue
            fn = m["call"][0]
            root = "matrix_bincount2d" if fn.startswith("joint_counts") else fn
            cls = {"err_negative": "negative-id-accepted", "err_toolarge": "too-large-id-accepted",
                   "err_length": "unequal-lengths-accepted"}[c["err"]]
            hits = c.get("hits", [])
            ctx.violation({"kind": "replay", "call": m["call"], "threads": th, "outcome": oc, "case": c,
                           "forbidden_outcome": ("written out of bounds" if any(h < 0 or h >= c.get("size", 0) for h in hits)
                                                 else "counted in another cell") if hits else None,
                           "via": fn, "how": "JointCounts.tla expects the error terminal %s" % c["err"]},
                          key="%s/%s" % (root, cls))
        for r, spec in zip(out.get("sessions", []) + out.get("kl", []), jb.get("sessions", []) + jb.get("kl", [])):
            if "_crashed" in r:         # the process died inside the library while executing the session
                ctx.violation({"kind": "crash", "threads": th, "outcome": r["_crashed"], "session_plan": spec,
                               "how": "worker child killed while executing the operations of this session"},
                              key="info_theory/crash-in-session")
                continue
            r["threads"] = th
            recs.append(r)
    for k, c in valid:
        if k in seen_valid:
            ctx.case((str(c["X"]), str(c["Y"]), c["nx"], c["ny"], c["self"]) if len(c["X"]) > 1 else None,
                     sample=c if len(c["X"]) > 2 and len(c["X"][0]) != len(c["Y"][0]) else None)
            ctx.traces += 1
    for k, c in inv_sel:
        ctx.case(("invalid", str(c["X"]), str(c["Y"]), c["nx"], c["ny"]))
        ctx.traces += 1
    ctx.notes["replay_calls_valid"] = calls
    ctx.notes["invalid_cases_replayed"] = len(inv_sel)
    ctx.notes["thread_counts"] = sorted({a[1] for a in args})
    ctx.notes["valid_cases_by_threads"] = {th: sum(1 for v in seen_valid.values() if th in v) for th in THREADS}
    if quick:
        ctx.exhaustive = False
        ctx.assumptions.append("quick tier: every emitted valid input is replayed at 1 and 2 threads, 1/2 of them at 4 and "
                               "1/6 at 16 threads (4 variant slots cover the 8 dtypes / 4 layouts per input); every 4th "
                               "emitted invalid input is replayed; the thorough tier replays all of them everywhere")
    validate_sessions(ctx, d, recs)
    t = os.times()
    ctx.notes["cpu_s_children"] = round(t.children_user + t.children_system, 1)


def replay(ctx, path):
    rec = json.load(open(path))
    b = core.build_repo()
    core.activate(b)
    ctx.case(("replay",), sample=None)
    if rec.get("kind") == "replay" and "case" in rec and rec["case"].get("err", "none") != "none":
        c = rec["case"]
        out = run_worker((b, rec.get("threads", 1), {"invalid": [[0, c]], "full": True}, "replay"))
        for m in out["invalid"]:
            if not (m["outcome"] or "").startswith("raised"):
                fn = m["call"][0]
                root = "matrix_bincount2d" if fn.startswith("joint_counts") else fn
                cls = {"err_negative": "negative-id-accepted", "err_toolarge": "too-large-id-accepted",
                       "err_length": "unequal-lengths-accepted"}[c["err"]]
                ctx.violation({"kind": "replay", "call": m["call"], "outcome": m["outcome"], "case": c}, key="%s/%s" % (root, cls))
    elif rec.get("kind") == "replay" and "case" in rec:
        out = run_worker((b, rec.get("threads", 1), {"valid": [[0, rec["case"]]], "full": True}, "replay"))
        for m in out["valid_mismatch"]:
            ctx.violation({"kind": "replay", "form": m["form"], "detail": m["detail"], "case": rec["case"]}, key=m["form"])
    elif "session" in rec:
        s = rec["session"]
        d = core.spec_tmp(SPEC_DIR)
        if s["kind"] == "kl":
            out = run_worker((b, 1, {"kl": [[s["p"], s["q"]]]}, "replay"))
            recs = out["kl"]
        else:
            ops = [{k: v for k, v in e.items() if k in ("ev", "side", "perms", "perm", "k", "cuts", "w", "raw", "of", "via",
                                                         "nxs", "nys", "xscalar", "yscalar", "asarray", "lens", "nlen")}
                   for e in s["events"] if e["ev"] != "raise"]
            out = run_worker((b, rec.get("threads") or 1, {"sessions": [{"X": s["X"], "Y": s["Y"], "nx": s["nx"],
                                                                         "ny": s["ny"], "ops": ops}]}, "replay"))
            recs = out["sessions"]
        validate_sessions(ctx, d, recs)
