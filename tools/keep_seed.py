#!/usr/bin/env python3
"""tools/keep_seed.py <seed-dir> <seedrun-log> [<seedrun-log-before-strengthening>]

Files a confirmed seeded change under /verif/seeded/<ID>/ : patch.diff, the demonstration, and meta.json (the author's
description merged with what was confirmed here: demonstration fails with / passes without the patch, baseline tests,
which check reported what).  Refuses if the confirmation is incomplete."""
import json
import os
import shutil
import sys


def result(log):
    for line in open(log):
        if line.startswith("SEEDRESULT "):
            return json.loads(line[len("SEEDRESULT "):])
    raise SystemExit("no SEEDRESULT line in %s" % log)


def main():
    seed, log = sys.argv[1], sys.argv[2]
    res = result(log)
    meta = json.load(open(os.path.join(seed, "meta.json")))
    sid = res["seed"]
    if res.get("demo_without_patch_rc") != 0 or not res.get("demo_with_patch_rc"):
        raise SystemExit("%s: demonstration not confirmed (without=%s with=%s)" % (sid, res.get("demo_without_patch_rc"), res.get("demo_with_patch_rc")))
    if "failed" in res.get("baseline_tests", "failed") and " passed" not in res.get("baseline_tests", ""):
        raise SystemExit("%s: baseline tests: %s" % (sid, res.get("baseline_tests")))
    dst = os.path.join(os.path.dirname(os.path.dirname(os.path.abspath(__file__))), "seeded", sid)
    os.makedirs(dst, exist_ok=True)
    shutil.copy(os.path.join(seed, "patch.diff"), dst)
    for f in os.listdir(seed):
        if f.endswith(".py"):
            shutil.copy(os.path.join(seed, f), dst)
    out = {
        "id": sid,
        "property": meta["property"],
        "summary": meta.get("summary"),
        "needs_to_manifest": meta.get("needs"),
        "files": meta.get("files"),
        "author": "independent sub-agent given only the property text and a scratch worktree",
        "author_ran": meta.get("ran"),
        "confirmed_here": {
            "how": "tools/seedrun.py: scratch worktree of /repo HEAD under /tmp/seedrun, demo run before and after `git apply patch.diff`, "
                   "the three test modules of the 47-test baseline run with the patch, then ./check with VERIF_REPO=<patched worktree>",
            "demo_without_patch_rc": res.get("demo_without_patch_rc"),
            "demo_with_patch_rc": res.get("demo_with_patch_rc"),
            "baseline_tests_with_patch": res.get("baseline_tests"),
        },
        "checks": {c: {"rc": v["rc"], "detected": v["rc"] == 1, "first_violation_class": v.get("first_key"),
                       "classes": [l.strip() for l in v.get("lines", []) if l.startswith("  violation class")][:6],
                       "wall_s": v.get("wall_s")} for c, v in res["checks"].items()},
    }
    if len(sys.argv) > 3:
        before = result(sys.argv[3])
        out["checks_before_strengthening"] = {c: {"rc": v["rc"], "detected": v["rc"] == 1} for c, v in before["checks"].items()}
    if os.environ.get("SEED_NOTE"):
        out["strengthening"] = os.environ["SEED_NOTE"]
    prev = os.path.join(dst, "meta.json")
    if os.path.exists(prev):
        old = json.load(open(prev))
        for k in ("checks_before_strengthening", "strengthening"):
            if k in old and k not in out:
                out[k] = old[k]
    with open(prev, "w") as fh:
        json.dump(out, fh, indent=1)
    print("kept", dst, {c: v["detected"] for c, v in out["checks"].items()})


if __name__ == "__main__":
    main()
