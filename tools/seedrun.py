#!/venv/bin/python
"""tools/seedrun.py <seed-dir> [--checks C01,C09] [--tier quick] [--keep]

Runs the registered checks against a seeded change without touching /repo: a scratch worktree of /repo's HEAD is
created under /tmp/seedrun/, the seed's patch.diff is applied there, the seed's own demonstration is run with and
without the patch (must fail / pass), then ./check <ID> runs with VERIF_REPO pointing at the patched worktree and
VERIF_OUT at a scratch directory (so the committed evidence of the real tree is not overwritten).  Prints one JSON
line with the outcome and removes the worktree.

<seed-dir> holds patch.diff, demo.py (argv[1] = tree root) and meta.json ({"property": "Cnn", ...}).
"""
import argparse
import json
import os
import shutil
import subprocess
import sys
import time

VERIF = os.path.dirname(os.path.dirname(os.path.abspath(__file__)))
PY = "/venv/bin/python"


def sh(cmd, **kw):
    return subprocess.run(cmd, stdout=subprocess.PIPE, stderr=subprocess.STDOUT, text=True, **kw)


def build(tree):
    r = sh([PY, "setup.py", "build_ext", "--inplace", "-j4"], cwd=tree)
    if r.returncode != 0:
        raise SystemExit("build failed in %s:\n%s" % (tree, r.stdout[-3000:]))


def run_demo(demo, tree):
    env = dict(os.environ, ENSPARA_TREE=tree, PYTHONPATH=tree, OMP_NUM_THREADS=os.environ.get("OMP_NUM_THREADS", "4"))
    if os.path.basename(demo).startswith("test_"):
        cmd = [PY, "-m", "pytest", "-q", "-p", "no:cacheprovider", demo]
    else:
        cmd = [PY, demo, tree]
    r = sh(cmd, cwd=tree, env=env, timeout=int(os.environ.get("SEED_DEMO_TIMEOUT", "1800")))
    return r.returncode, r.stdout[-1500:]


def main():
    ap = argparse.ArgumentParser()
    ap.add_argument("seed")
    ap.add_argument("--checks")
    ap.add_argument("--tier", default="quick")
    ap.add_argument("--keep", action="store_true")
    ap.add_argument("--skip-demo", action="store_true")
    ap.add_argument("--skip-tests", action="store_true")
    a = ap.parse_args()
    seed = os.path.abspath(a.seed)
    meta = json.load(open(os.path.join(seed, "meta.json")))
    name = os.path.basename(seed)
    parts = seed.split(os.sep)
    if len(parts) >= 3 and parts[-2] == "out":
        name = parts[-3] + "_" + name
    checks = a.checks.split(",") if a.checks else [meta["property"]]
    root = "/tmp/seedrun/%s_%d" % (name, os.getpid())
    wt = os.path.join(root, "wt")
    os.makedirs(root, exist_ok=True)
    out = {"seed": name, "property": meta["property"], "checks": {}}
    demo = next((os.path.join(seed, f) for f in sorted(os.listdir(seed)) if f.startswith(("demo", "test_")) and f.endswith(".py")), None)
    try:
        r = sh(["git", "-C", "/repo", "worktree", "add", "--detach", wt, "HEAD", "-q"])
        if r.returncode:
            raise SystemExit(r.stdout)
        if not a.skip_demo and demo:
            build(wt)
            rc0, _ = run_demo(demo, wt)
            out["demo_without_patch_rc"] = rc0
        r = sh(["git", "-C", wt, "apply", os.path.join(seed, "patch.diff")])
        if r.returncode:
            raise SystemExit("patch does not apply: " + r.stdout)
        out["files"] = sh(["git", "-C", wt, "diff", "--stat"]).stdout.strip().split("\n")[-1]
        if not a.skip_demo and demo:
            build(wt)
            rc1, tail = run_demo(demo, wt)
            out["demo_with_patch_rc"] = rc1
            out["demo_tail"] = tail[-400:]
        if not a.skip_tests:
            # the pinned baseline: the official command from an UNBUILT tree -- here the tree is built, so run the
            # three modules that make up the 47 baseline tests
            r = sh([PY, "-m", "pytest", "-q", "-p", "no:cacheprovider", "--timeout=900", "enspara/test/test_ra.py",
                    "enspara/test/test_rotamer.py", "enspara/test/test_tpt_fluxes.py",
                    "--deselect", "enspara/test/test_rotamer.py::test_rotamer_assignment"], cwd=wt,
                   env=dict(os.environ, PYTHONPATH=wt))
            out["baseline_tests"] = r.stdout.strip().split("\n")[-1]
        # remove build products so that the check's own build (cache keyed by source hash) is what runs
        sh(["git", "-C", wt, "clean", "-fdxq"])
        for c in checks:
            t0 = time.time()
            env = dict(os.environ, VERIF_REPO=wt, VERIF_OUT=os.path.join(root, "out"))
            r = sh([os.path.join(VERIF, "check"), c, "--tier", a.tier], cwd=VERIF, env=env)
            lines = [l for l in r.stdout.split("\n") if l.startswith(("VIOLATION", "KNOWN-FINDING", "MACHINERY", "  violation class"))]
            out["checks"][c] = {"rc": r.returncode, "wall_s": round(time.time() - t0), "lines": lines[:12],
                                "tail": r.stdout.strip().split("\n")[-1][:300]}
            if r.returncode == 2:
                out["checks"][c]["stderr_tail"] = r.stdout[-1500:]
            # keep the first violation record for the seed's documentation
            vd = os.path.join(root, "out", "violations", c)
            if os.path.isdir(vd) and os.listdir(vd):
                first = sorted(os.listdir(vd))[0]
                try:
                    rec = json.load(open(os.path.join(vd, first)))
                    out["checks"][c]["first_key"] = rec.get("key")
                except Exception:
                    pass
    finally:
        if not a.keep:
            sh(["git", "-C", "/repo", "worktree", "remove", "--force", wt])
            shutil.rmtree(root, ignore_errors=True)
            sh(["git", "-C", "/repo", "worktree", "prune"])
    print("SEEDRESULT " + json.dumps(out))
    return 0


if __name__ == "__main__":
    sys.exit(main())
