#!/bin/sh
# tools/seedqueue.sh <parallelism> <seed-dir>... : run tools/seedrun.py over several seeds, at most N at a time;
# one SEEDRESULT line per seed goes to out/seedruns/<name>.log
N=$1; shift
mkdir -p /verif/out/seedruns
printf '%s\n' "$@" | xargs -P "$N" -I{} sh -c 'n=$(echo {} | sed "s#/out/#_#; s#.*/##; s#^#$(basename $(dirname $(dirname {})))_#" ); /verif/tools/seedrun.py {} > /verif/out/seedruns/$(echo {} | tr "/" "_").log 2>&1'
