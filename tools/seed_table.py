#!/usr/bin/env python3
"""Rewrites the seeded-changes table of DESIGN.md (between the SEED-TABLE markers) from seeded/*/meta.json."""
import glob
import json
import os

V = os.path.dirname(os.path.dirname(os.path.abspath(__file__)))
rows = []
for f in sorted(glob.glob(os.path.join(V, "seeded", "*", "meta.json"))):
    m = json.load(open(f))
    det = ", ".join("%s: %s" % (c, "caught (%s)" % (v.get("first_violation_class") or (v.get("classes") or ["?"])[0].replace("violation class", "").split(" x")[0].strip())
                               if v["detected"] else "MISSED") for c, v in m["checks"].items())
    before = m.get("checks_before_strengthening")
    note = ""
    if before and not all(v.get("detected") for v in before.values()):
        note = "missed at first; " + (m.get("strengthening") or "check strengthened")
    summ = (m.get("summary") or "").replace("\n", " ").replace("|", "/")
    rows.append("| %s | %s | %s | %s |" % (m["id"], summ[:260] + ("..." if len(summ) > 260 else ""), det, note.replace("|", "/")))
table = ["| seed | change (author's summary, shortened) | quick check | note |", "|---|---|---|---|"] + rows
p = os.path.join(V, "DESIGN.md")
s = open(p).read()
a, b = "<!-- SEED-TABLE-BEGIN -->", "<!-- SEED-TABLE-END -->"
if a not in s:
    raise SystemExit("markers missing in DESIGN.md")
s = s[:s.index(a) + len(a)] + "\n" + "\n".join(table) + "\n" + s[s.index(b):]
open(p, "w").write(s)
print("%d seeds" % len(rows))
