#!/venv/bin/python
"""one line per seed-run log: seed, check rc, wall, first key"""
import glob, json, sys, os
for f in sorted(glob.glob(sys.argv[1] if len(sys.argv) > 1 else "/verif/out/seedruns/_tmp_seed_*.log")):
    last = open(f, errors="replace").read().strip().splitlines()[-1:] or [""]
    l = last[0]
    if not l.startswith("SEEDRESULT"):
        print(os.path.basename(f), "RUNNING/ERR:", l[:120]); continue
    r = json.loads(l[len("SEEDRESULT "):])
    for p, c in r["checks"].items():
        print(r["seed"], p, "rc=%s" % c["rc"], "%ss" % c["wall_s"], "demo %s/%s" % (r["demo_without_patch_rc"], r["demo_with_patch_rc"]), r["baseline_tests"][:22], c.get("first_key", ""))
